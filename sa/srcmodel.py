"""A1 source model: parse the library (never import it), index modules / classes / functions,
MRO, method aliases, properties, class-hierarchy call resolution.

The tree analysed is <root>/src/barril, root = $VERIF_REPO or /repo; tests, conftest.py and docs
are excluded.  `overlay` maps a path relative to the root to replacement source text (used by the
positive controls: mutants are overlays in memory, no scratch copies on disk).
"""
import ast
import collections
import glob
import os

from .report import AnalysisError


def repo_root():
    return os.environ.get("VERIF_REPO", "/repo")


class Func:
    def __init__(self, qual, node, cls, module, path, parent):
        self.qual = qual
        self.node = node
        self.cls = cls  # name of the enclosing class (also for functions nested in methods)
        self.module = module
        self.path = path  # path relative to the repo root
        self.parent = parent  # enclosing Func for nested functions
        self.name = node.name
        a = node.args
        self.params = (
            [x.arg for x in a.posonlyargs + a.args]
            + ([a.vararg.arg] if a.vararg else [])
            + [x.arg for x in a.kwonlyargs]
            + ([a.kwarg.arg] if a.kwarg else [])
        )
        self.decorators = [ast.unparse(d) for d in node.decorator_list]
        self.is_method = False  # set when registered as a direct class member

    @property
    def is_classmethod(self):
        return "classmethod" in self.decorators

    @property
    def is_staticmethod(self):
        return "staticmethod" in self.decorators

    def param_annotation(self, name):
        a = self.node.args
        for x in a.posonlyargs + a.args + a.kwonlyargs + ([a.vararg] if a.vararg else []) + ([a.kwarg] if a.kwarg else []):
            if x.arg == name:
                return x.annotation
        return None

    def __repr__(self):
        return "Func(%s)" % self.qual


class ClassInfo:
    def __init__(self, name, node, qual, path, module):
        self.name = name
        self.node = node
        self.qual = qual
        self.path = path
        self.module = module
        self.bases = [ast.unparse(b).split("[")[0].split(".")[-1] for b in node.bases]
        self.decorators = [ast.unparse(d) for d in node.decorator_list]
        self.methods = {}  # name -> Func (incl. aliases)
        self.aliases = {}  # alias name -> original name
        self.properties = {}  # name -> (getter Func or None, setter Func or None)
        self.class_attrs = {}  # name -> value node (class-level assignments)
        self.annotations = {}  # name -> annotation node


class Model:
    def __init__(self, root=None, overlay=None):
        self.root = root or repo_root()
        self.src_root = os.path.join(self.root, "src", "barril")
        if not os.path.isdir(self.src_root):
            raise AnalysisError("library source directory not found: %s" % self.src_root)
        self.overlay = overlay or {}
        self.funcs = {}
        self.classes = {}
        self.by_name = collections.defaultdict(list)
        self.trees = {}  # relpath -> (tree, src)
        self.module_funcs = collections.defaultdict(dict)  # module -> {name: Func}
        files = sorted(
            f
            for f in glob.glob(self.src_root + "/**/*.py", recursive=True)
            if "/_tests/" not in f and not f.endswith("conftest.py")
        )
        if len(files) < 20:
            raise AnalysisError("only %d library modules found under %s" % (len(files), self.src_root))
        modules = {}
        for f in files:
            rel = os.path.relpath(f, self.root)
            if rel in self.overlay:
                src = self.overlay[rel]
            else:
                with open(f, encoding="utf-8") as fh:
                    src = fh.read()
            try:
                tree = ast.parse(src, filename=rel)
            except SyntaxError as e:
                raise AnalysisError("cannot parse %s: %s" % (rel, e))
            if src.count("\n") < 5000:
                # parent links (not needed for the 16k-line table module, which only the
                # filler interpreter reads)
                for parent in ast.walk(tree):
                    for child in ast.iter_child_nodes(parent):
                        child._parent = parent
            self.trees[rel] = (tree, src)
            mod = os.path.relpath(f, os.path.dirname(self.src_root))[:-3].replace("/", ".")
            if mod.endswith(".__init__"):
                mod = mod[: -len(".__init__")]
            modules[rel] = mod
        self.merged_mixins = []
        if not os.environ.get("VERIF_NO_MIXINS"):
            from .flatten import merge_private_mixins

            self.merged_mixins = merge_private_mixins(self.trees, modules)
        for rel, mod in modules.items():
            self._walk(self.trees[rel][0].body, mod, None, mod, rel, None)
        self._finish_classes()
        self.flattener = None
        # source normalisation (DESIGN.md 11.2a): desugar, inline new helpers, normalise call spelling
        if not os.environ.get("VERIF_NO_RENAMES"):
            from .flatten import undo_private_renames

            undo_private_renames(self)
        if not os.environ.get("VERIF_NO_DESUGAR"):
            from .flatten import desugar, expand_tables

            if not os.environ.get("VERIF_NO_TABLES"):
                expand_tables(self)
            desugar(self)
        if not os.environ.get("VERIF_NO_FLATTEN"):
            from .flatten import flatten_model

            self.flattener = flatten_model(self)
        if not os.environ.get("VERIF_NO_KWNORM"):
            from .flatten import normalize_calls

            normalize_calls(self)
        if not os.environ.get("VERIF_NO_SINK"):
            from .flatten import sink_returns

            sink_returns(self)

    # ------------------------------------------------------------------ building
    def _walk(self, body, prefix, cls, mod, path, parent_fn):
        for n in body:
            if isinstance(n, ast.ClassDef):
                q = prefix + "." + n.name
                ci = ClassInfo(n.name, n, q, path, mod)
                # nested helper classes (e.g. CreateWithQuantity.Stub) are indexed but never shadow
                if n.name not in self.classes or parent_fn is None:
                    self.classes[n.name] = ci
                self._walk(n.body, q, n.name, mod, path, parent_fn)
            elif isinstance(n, (ast.FunctionDef, ast.AsyncFunctionDef)):
                q = prefix + "." + n.name
                home = getattr(n, "_home", None)  # a method merged in from a mixin of another module
                fn = Func(q, n, cls, home[0] if home else mod, home[1] if home else path, parent_fn)
                if q in self.funcs:
                    # overloads / redefinitions: the last definition wins (as in Python)
                    old = self.funcs[q]
                    if old in self.by_name[n.name]:
                        self.by_name[n.name].remove(old)
                self.funcs[q] = fn
                self.by_name[n.name].append(fn)
                if cls and parent_fn is None and prefix.endswith("." + cls):
                    fn.is_method = True
                    self.classes[cls].methods[n.name] = fn
                elif cls is None and parent_fn is None:
                    self.module_funcs[mod][n.name] = fn
                self._walk(n.body, q, cls, mod, path, fn)
            elif isinstance(n, (ast.If, ast.Try, ast.With, ast.For, ast.While)):
                for fld in ("body", "orelse", "finalbody"):
                    sub = getattr(n, fld, None)
                    if isinstance(sub, list):
                        self._walk(sub, prefix, cls, mod, path, parent_fn)
                for h in getattr(n, "handlers", []) or []:
                    self._walk(h.body, prefix, cls, mod, path, parent_fn)

    def _finish_classes(self):
        for cname, ci in self.classes.items():
            for n in ci.node.body:
                if isinstance(n, ast.Assign) and len(n.targets) == 1 and isinstance(n.targets[0], ast.Name):
                    t = n.targets[0].id
                    ci.class_attrs[t] = n.value
                    v = n.value
                    if isinstance(v, ast.Call) and isinstance(v.func, ast.Name) and v.func.id == "property":
                        g = v.args[0] if v.args else None
                        s = v.args[1] if len(v.args) > 1 else None
                        for kw in v.keywords:
                            if kw.arg == "fget":
                                g = kw.value
                            elif kw.arg == "fset":
                                s = kw.value
                        ci.properties[t] = (
                            g.id if isinstance(g, ast.Name) else None,
                            s.id if isinstance(s, ast.Name) else None,
                        )
                    elif isinstance(v, ast.Name):
                        ci.aliases[t] = v.id
                elif isinstance(n, ast.AnnAssign) and isinstance(n.target, ast.Name):
                    ci.annotations[n.target.id] = n.annotation
                    if n.value is not None:
                        ci.class_attrs[n.target.id] = n.value
                elif isinstance(n, ast.FunctionDef):
                    for d in n.decorator_list:
                        ds = ast.unparse(d)
                        if ds == "property":
                            ci.properties[n.name] = (n.name, ci.properties.get(n.name, (None, None))[1])
                        elif ds.endswith(".setter"):
                            ci.properties[n.name] = (ci.properties.get(n.name, (None, None))[0], n.name)
        # resolve aliases and property accessors to Func objects (after all classes are known)
        for cname, ci in self.classes.items():
            for alias, orig in ci.aliases.items():
                fn = self.lookup(cname, orig)
                if fn is not None and alias not in ci.methods:
                    ci.methods[alias] = fn
                    self.by_name[alias].append(fn)
            for p, (g, s) in list(ci.properties.items()):
                ci.properties[p] = (
                    self.lookup(cname, g) if isinstance(g, str) else None,
                    self.lookup(cname, s) if isinstance(s, str) else None,
                )

    # ------------------------------------------------------------------ queries
    def mro(self, cls):
        out = []
        todo = [cls]
        while todo:
            c = todo.pop(0)
            if c in out or c not in self.classes:
                continue
            out.append(c)
            todo += self.classes[c].bases
        return out

    def subclasses(self, cls):
        return [c for c in self.classes if cls in self.mro(c)]

    def family(self, cls):
        return set(self.mro(cls)) | set(self.subclasses(cls))

    def lookup(self, cls, meth):
        for c in self.mro(cls):
            if meth in self.classes[c].methods:
                return self.classes[c].methods[meth]
        return None

    def lookup_property(self, cls, name):
        for c in self.mro(cls):
            if name in self.classes[c].properties:
                return self.classes[c].properties[name]
            if name in self.classes[c].methods or name in self.classes[c].class_attrs:
                return None
        return None

    def class_attr(self, cls, name):
        for c in self.mro(cls):
            if name in self.classes[c].class_attrs:
                return self.classes[c].class_attrs[name]
        return None

    def defined_names(self, cls):
        """Every attribute name a class (with its bases) defines: methods, class attributes,
        annotations, properties and `self.x = ...` stores in its methods."""
        out = set()
        for c in self.mro(cls):
            ci = self.classes[c]
            out |= set(ci.methods) | set(ci.class_attrs) | set(ci.annotations) | set(ci.properties)
            for fn in set(ci.methods.values()):
                for e in ast.walk(fn.node):
                    if (
                        isinstance(e, ast.Attribute)
                        and isinstance(e.ctx, ast.Store)
                        and isinstance(e.value, ast.Name)
                        and e.value.id == "self"
                    ):
                        out.add(e.attr)
            if "__slots__" in ci.class_attrs:
                v = ci.class_attrs["__slots__"]
                if isinstance(v, (ast.List, ast.Tuple)):
                    out |= {e.value for e in v.elts if isinstance(e, ast.Constant)}
        return out

    def func(self, qual):
        """Anchor lookup: a vanished anchor is an analysis error, never a silent pass."""
        fn = self.funcs.get(qual)
        if fn is None:
            # allow suffix match (module path changes are refactors, not violations)
            cands = [f for q, f in self.funcs.items() if q.endswith("." + qual)]
            if len(cands) == 1:
                return cands[0]
            raise AnalysisError("anchor function not found: %s" % qual)
        return fn

    def method(self, cls, name, or_module_function=False):
        """or_module_function: a private helper of the class may have been moved to the module level of the
        class's module (it then has no self parameter)."""
        if cls not in self.classes:
            raise AnalysisError("anchor class not found: %s" % cls)
        fn = self.lookup(cls, name)
        if fn is None and or_module_function:
            own = [f for f in self.funcs.values() if f.cls == cls]
            mods = {f.module for f in own}
            cands = [g for mod in mods for g in [self.module_funcs.get(mod, {}).get(name)] if g is not None]
            if len(cands) == 1:
                return cands[0]
        if fn is None:
            raise AnalysisError("anchor method not found: %s.%s" % (cls, name))
        return fn

    def own_method(self, cls, name):
        """Method defined directly in the class body (None when inherited)."""
        if cls not in self.classes:
            raise AnalysisError("anchor class not found: %s" % cls)
        return self.classes[cls].methods.get(name)

    def cls(self, name):
        if name not in self.classes:
            raise AnalysisError("anchor class not found: %s" % name)
        return self.classes[name]

    def tree(self, relpath):
        if relpath not in self.trees:
            raise AnalysisError("anchor module not found: %s" % relpath)
        return self.trees[relpath][0]


# ---------------------------------------------------------------------- small AST helpers
def own_nodes(fn_node):
    """All AST nodes of a function body, not descending into nested defs/classes/lambdas' defs."""
    out = []
    todo = list(fn_node.body)
    while todo:
        n = todo.pop()
        out.append(n)
        if isinstance(n, (ast.FunctionDef, ast.AsyncFunctionDef, ast.ClassDef)):
            continue
        for c in ast.iter_child_nodes(n):
            if isinstance(c, (ast.FunctionDef, ast.AsyncFunctionDef, ast.ClassDef)):
                out.append(c)
                continue
            todo.append(c)
    return out


def program_order(fn_node):
    """key function: position of a node in the pre-order walk of the function (line numbers are not
    usable for ordering once helpers were inlined: inlined statements keep the helper's lines)."""
    idx = {}
    stack = [fn_node]
    while stack:
        n = stack.pop()
        idx[id(n)] = len(idx)
        stack.extend(reversed(list(ast.iter_child_nodes(n))))
    return lambda n: idx.get(id(n), 1 << 30)


def own_statements(fn_node):
    """Statements of a function in source order, not descending into nested defs."""
    out = []

    def walk(body):
        for n in body:
            out.append(n)
            if isinstance(n, (ast.FunctionDef, ast.AsyncFunctionDef, ast.ClassDef)):
                continue
            for fld in ("body", "orelse", "finalbody"):
                sub = getattr(n, fld, None)
                if isinstance(sub, list):
                    walk(sub)
            for h in getattr(n, "handlers", []) or []:
                walk(h.body)

    walk(fn_node.body)
    return out


def names_in(node):
    return {n.id for n in ast.walk(node) if isinstance(n, ast.Name)}


def is_self_attr(node, attr=None, selfname="self"):
    return (
        isinstance(node, ast.Attribute)
        and isinstance(node.value, ast.Name)
        and node.value.id == selfname
        and (attr is None or node.attr == attr)
    )


def call_name(call):
    """Dotted name of a call's callee ('' when not a plain name/attribute chain)."""
    try:
        return ast.unparse(call.func)
    except Exception:
        return ""


def const_str(node):
    return node.value if isinstance(node, ast.Constant) and isinstance(node.value, str) else None


def parent(node):
    return getattr(node, "_parent", None)


def enclosing_stmt(node):
    while node is not None and not isinstance(node, ast.stmt):
        node = parent(node)
    return node
