"""A10 string-builder typestate: abstract interpretation of a function that builds a factor string
in an accumulator variable (`ret = ""; for rep, exp in seq: ... ret += ...; return ret`).

Abstract state (one tuple per path, sets of tuples at joins, loop fixpoint):
   region   NUM (no '/' emitted yet) | DEN
   last     EMPTY | SEP | FACTOR      what the accumulator ends with
   sign     POS | NEG | ANY           what is known about the loop element's exponent on this path
   bools    tracked boolean locals (added_div ...)
Appended expressions are classified by *provenance*, not by text: a constant is a separator (one
containing '/' switches the region); an expression mentioning the loop's representation variable
starts a factor; an expression mentioning only the exponent variable is a factor suffix.
Events reported:
   no-separator   a factor starts while the accumulator ends with a factor
   wrong-side     a factor with positive exponent is emitted after the '/', or a negative one before it
   second-slash   a '/'-separator is emitted when one was emitted already
   dangling-sep   the function can return a string ending with a separator
"""
import ast
import itertools

from .report import AnalysisError

NUM, DEN = "NUM", "DEN"
EMPTY, SEP, FACTOR = "EMPTY", "SEP", "FACTOR"
POS, NEG, ANY = "POS", "NEG", "ANY"


class State:
    __slots__ = ("region", "last", "sign", "bools")

    def __init__(self, region=NUM, last=EMPTY, sign=ANY, bools=()):
        self.region, self.last, self.sign, self.bools = region, last, sign, tuple(sorted(bools))

    def key(self):
        return (self.region, self.last, self.sign, self.bools)

    def __hash__(self):
        return hash(self.key())

    def __eq__(self, o):
        return self.key() == o.key()

    def with_(self, **kw):
        d = {"region": self.region, "last": self.last, "sign": self.sign, "bools": self.bools}
        d.update(kw)
        return State(**d)

    def bool(self, name):
        return dict(self.bools).get(name)

    def set_bool(self, name, v):
        d = dict(self.bools)
        d[name] = v
        return self.with_(bools=tuple(d.items()))

    def __repr__(self):
        return "<%s %s %s %s>" % (self.region, self.last, self.sign, dict(self.bools))


class Builder:
    def __init__(self, fn_node, source_hint=None):
        self.fn = fn_node
        self.events = []  # (kind, node, state)
        self.acc = None
        self.exit_states = set()
        self.n_appends = 0
        self.n_loops = 0
        self.seps = set()
        self.taint = {}  # local -> roles ('rep' / 'exp') of the loop variables it derives from
        self.views = {}  # local -> comprehension over the input sequence
        self.local_values = {}  # local -> expressions assigned to it
        self.loop_renders_exp = {}  # id(loop node) -> an append inside it renders the exponent
        self.append_exprs = []  # (statement, appended expression, roles)
        self._loop_stack = []
        self.exp_aliases = set()
        self.rep_aliases = set()
        # locals that are only ever plain copies of one other name (candidates for the aliases above)
        defs = {}
        for n in ast.walk(fn_node):
            if isinstance(n, ast.Name) and isinstance(n.ctx, (ast.Store, ast.Del)):
                defs.setdefault(n.id, []).append(None)
        for n in ast.walk(fn_node):
            if isinstance(n, ast.Assign) and len(n.targets) == 1 and isinstance(n.targets[0], ast.Name) and isinstance(n.value, ast.Name):
                lst = defs.get(n.targets[0].id, [])
                if None in lst:
                    lst[lst.index(None)] = n.value.id
        self.pure_copies = {k for k, v in defs.items() if v and None not in v and len(set(v)) == 1}
        self.append_states = {}  # id(append statement) -> abstract states reaching it
        self._counter = None
        self._find_acc()
        # locals every store of which is a string literal (and that are not part of the accumulator family)
        st_ = {}
        for n in ast.walk(self.fn):
            if isinstance(n, (ast.Assign, ast.AnnAssign, ast.AugAssign)):
                for t in (n.targets if isinstance(n, ast.Assign) else [n.target]):
                    for x in ast.walk(t):
                        if isinstance(x, ast.Name):
                            ok_ = isinstance(n, ast.Assign) and len(n.targets) == 1 and t is x and isinstance(n.value, ast.Constant) and isinstance(n.value.value, str)
                            st_.setdefault(x.id, []).append(ok_)
            elif isinstance(n, (ast.For, ast.comprehension)):
                for x in ast.walk(n.target):
                    if isinstance(x, ast.Name):
                        st_.setdefault(x.id, []).append(False)
        self.str_locals = {k for k, v in st_.items() if v and all(v) and k not in self.family}

    def _find_acc(self):
        rets = [n for n in ast.walk(self.fn) if isinstance(n, ast.Return) and n.value is not None]
        names = {n.value.id for n in rets if isinstance(n.value, ast.Name)}
        if len(names) != 1 or len(rets) != len([n for n in rets if isinstance(n.value, ast.Name)]):
            raise AnalysisError("string builder: the function does not return a single accumulator variable")
        self.acc = names.pop()
        # the accumulator may be handed from one local to the next (`numerator = ret` ... `result = numerator`):
        # all names on that chain of plain copies denote the one string being built
        self.family = {self.acc}
        changed = True
        while changed:
            changed = False
            for n in ast.walk(self.fn):
                if isinstance(n, ast.Assign) and len(n.targets) == 1 and isinstance(n.targets[0], ast.Name) and n.targets[0].id in self.family \
                        and isinstance(n.value, ast.Name) and n.value.id not in self.family:
                    self.family.add(n.value.id)
                    changed = True

    # ------------------------------------------------------------------ running
    def run(self):
        out = self.block(self.fn.body, {None})
        return self

    def event(self, kind, node, st):
        if not any(k == kind and n is node for k, n, _ in self.events):
            self.events.append((kind, node, st))

    def block(self, body, states):
        """states: set of State or {None} (accumulator not initialised yet)."""
        cur = set(states)
        for st in body:
            cur = self.stmt(st, cur)
            if not cur:
                break
        return cur

    def stmt(self, node, states):
        acc = self.acc
        if isinstance(node, (ast.Assign, ast.AnnAssign)):
            targets = node.targets if isinstance(node, ast.Assign) else [node.target]
            value = node.value
            if any(isinstance(t, ast.Name) and t.id in self.family for t in targets):
                if isinstance(value, ast.Constant) and value.value == "":
                    return {State()}
                if isinstance(value, ast.Name) and value.id in self.family:
                    return states  # the string is handed to the next local
                if isinstance(value, ast.BinOp) and isinstance(value.op, ast.Add) and isinstance(value.left, ast.Name) and value.left.id in self.family:
                    return self.append_expr(node, value.right, states)
                raise AnalysisError("string builder: accumulator assigned from an unrecognised expression at line %d" % node.lineno)
            # tracked boolean locals
            if len(targets) == 1 and isinstance(targets[0], ast.Name) and isinstance(value, ast.Constant) and isinstance(value.value, bool):
                name = targets[0].id
                return {s.set_bool(name, value.value) if s is not None else None for s in states}
            if len(targets) == 1 and isinstance(targets[0], ast.Name) and isinstance(value, ast.Constant) and isinstance(value.value, str) and targets[0].id in self.str_locals:
                # a local that only ever holds literal text (a separator chosen ahead of its use): its value is part of the state
                name = targets[0].id
                self.local_values.setdefault(name, []).append(value)
                return {s.set_bool(name, value.value) if s is not None else None for s in states}
            # other locals: remember which loop variables they derive from (provenance), and filtered views of
            # the input sequence
            if len(targets) == 1 and isinstance(targets[0], ast.Name) and value is not None:
                name = targets[0].id
                if isinstance(value, (ast.GeneratorExp, ast.ListComp)):
                    self.views[name] = value
                else:
                    self.taint[name] = self.taint.get(name, set()) | self._roles(value)
                    self.local_values.setdefault(name, []).append(value)
                    # a plain copy of a loop variable plays that variable's role (`exp = exponent_of_entry`)
                    if name in self.pure_copies and isinstance(value, ast.Name) and self._is_exp(value.id):
                        self.exp_aliases.add(name)
                    elif name in self.pure_copies and isinstance(value, ast.Name) and self._is_rep(value.id):
                        self.rep_aliases.add(name)
            return states
        if isinstance(node, ast.AugAssign):
            if isinstance(node.target, ast.Name) and node.target.id in self.family:
                if not isinstance(node.op, ast.Add):
                    raise AnalysisError("string builder: accumulator updated with an operator other than += at line %d" % node.lineno)
                return self.append_expr(node, node.value, states)
            return states
        if isinstance(node, ast.If):
            t_states, f_states = set(), set()
            for s in states:
                for outcome, s2 in self.cond(node.test, s):
                    (t_states if outcome else f_states).add(s2)
            out = set()
            if t_states:
                out |= self.block(node.body, t_states)
            if f_states:
                out |= self.block(node.orelse, f_states) if node.orelse else f_states
            return out
        if isinstance(node, ast.For):
            self.n_loops += 1
            it, target, counter = node.iter, node.target, None
            if isinstance(it, ast.Call) and isinstance(it.func, ast.Name) and it.func.id == "enumerate" and len(it.args) == 1 and not it.keywords \
                    and isinstance(target, ast.Tuple) and len(target.elts) == 2 and isinstance(target.elts[0], ast.Name):
                # enumerate(): the index is tracked as "not the first iteration"
                counter, target, it = target.elts[0].id, target.elts[1], it.args[0]
            self._loop_vars = self._target_names(target)
            self._counter = counter
            self._loop_stack.append(node)
            self.loop_renders_exp.setdefault(id(node), False)
            # a filtered view of the input (generator / list comprehension that passes the items on unchanged)
            view = self.views.get(it.id) if isinstance(it, ast.Name) else it if isinstance(it, (ast.GeneratorExp, ast.ListComp)) else None
            filters = []
            if view is not None:
                g = view.generators
                if len(g) != 1 or ast.dump(view.elt) != ast.dump(g[0].target).replace("Store()", "Load()") or self._target_names(g[0].target) != self._loop_vars[-len(self._target_names(g[0].target)):]:
                    raise AnalysisError("string builder: the loop at line %d iterates a comprehension that does not pass the items on unchanged" % node.lineno)
                filters = list(g[0].ifs)

            def enter(sts, first):
                out_ = set()
                for s_ in sts:
                    if s_ is None:
                        out_.add(None)
                        continue
                    s_ = s_.with_(sign=ANY)
                    if counter is not None:
                        s_ = s_.set_bool(counter, not first)
                    cands = [s_]
                    for f in filters:
                        cands = [s2 for c_ in cands for o, s2 in self.cond(f, c_) if o]
                    out_ |= set(cands)
                return out_

            def leave(sts):
                out_ = set()
                for s_ in sts:
                    if s_ is not None:
                        s_ = s_.with_(sign=ANY)
                        if counter is not None:
                            d = dict(s_.bools)
                            d.pop(counter, None)
                            s_ = s_.with_(bools=tuple(d.items()))
                    out_.add(s_)
                return out_

            # a view that a dominating test found non-empty is iterated at least once
            vname = it.id if isinstance(it, ast.Name) and it.id in self.views else None
            seen = set(leave({s_ for s_ in states if not (vname and s_ is not None and s_.bool("nonempty:" + vname) is True)}))
            frontier = set(states)
            first = True
            # fixpoint: the body runs zero or more times; each iteration starts with an unknown sign
            for _ in range(64):
                start = enter(frontier, first)
                first = False
                after = leave(self.block(node.body, start))
                new = after - seen
                if not new:
                    break
                seen |= new
                frontier = new
            else:
                raise AnalysisError("string builder: loop fixpoint not reached")
            self._counter = None
            self._loop_stack.pop()
            return seen
        if isinstance(node, ast.Return):
            for s in states:
                if s is not None:
                    self.exit_states.add(s)
                    if s.last == SEP:
                        self.event("dangling-sep", node, s)
            return set()
        if isinstance(node, (ast.Expr, ast.Pass)):
            return states
        if isinstance(node, (ast.Continue,)):
            self._continued = getattr(self, "_continued", set()) | states
            return states  # conservative: treated as falling through (no appends follow in the repo's idiom)
        raise AnalysisError("string builder: statement kind not modelled: %s at line %d" % (type(node).__name__, node.lineno))

    def _target_names(self, t):
        names = [x.id for x in ast.walk(t) if isinstance(x, ast.Name)]
        return names

    # ------------------------------------------------------------------ conditions
    def cond(self, test, s):
        """Yield (outcome, refined state) pairs."""
        if s is None:
            return [(True, s), (False, s)]
        if isinstance(test, ast.UnaryOp) and isinstance(test.op, ast.Not):
            return [(not o, s2) for o, s2 in self.cond(test.operand, s)]
        if isinstance(test, ast.Name):
            if test.id in self.family:
                return [(s.last != EMPTY or s.region == DEN, s)]
            if test.id in self.views and isinstance(self.views[test.id], ast.ListComp):
                # a filtered list of the items used as a condition: whether it is empty is remembered
                return [(True, s.set_bool("nonempty:" + test.id, True)), (False, s.set_bool("nonempty:" + test.id, False))]
            b = s.bool(test.id)
            if b is not None:
                return [(b, s)]
            return [(True, s), (False, s)]
        if isinstance(test, ast.Compare) and len(test.ops) == 1 and isinstance(test.comparators[0], (ast.Constant, ast.UnaryOp)):
            try:
                c = ast.literal_eval(test.comparators[0])
            except Exception:
                c = None
            if isinstance(test.left, ast.Name) and isinstance(c, (int, float)) and test.left.id == self._counter and s.bool(self._counter) is not None:
                outs = {o for o in self._sign_truth(POS if s.bool(self._counter) else "ZERO", test.ops[0], c)}
                return [(o, s) for o in sorted(outs)]
            if isinstance(test.left, ast.Name) and isinstance(c, (int, float)) and self._is_exp(test.left.id):
                op = test.ops[0]
                res = []
                for sign in ((POS, NEG, "ZERO") if s.sign == ANY else (s.sign,)):
                    # representative truth of `exp OP c` per sign class when decidable
                    truth = self._sign_truth(sign, op, c)
                    for t in truth:
                        res.append((t, s.with_(sign=sign if sign != "ZERO" else "ZERO")))
                return res
        if isinstance(test, ast.BoolOp):
            outs = [(True, s)] if isinstance(test.op, ast.And) else [(False, s)]
            acc_out = []
            for v in test.values:
                nxt = []
                for o, st in outs:
                    for o2, st2 in self.cond(v, st):
                        if isinstance(test.op, ast.And):
                            (nxt if o2 else acc_out).append((o2, st2))
                        else:
                            (acc_out if o2 else nxt).append((o2, st2))
                outs = nxt
            return acc_out + outs
        return [(True, s), (False, s)]

    def _is_exp(self, name):
        lv = getattr(self, "_loop_vars", [])
        return (len(lv) >= 2 and name == lv[-1]) or name in self.exp_aliases

    def _is_rep(self, name):
        lv = getattr(self, "_loop_vars", [])
        return (bool(lv) and name in lv[:-1] if len(lv) >= 2 else name in lv) or name in self.rep_aliases

    @staticmethod
    def _sign_truth(sign, op, c):
        samples = {POS: [1, 2, 5], NEG: [-1, -2, -5], "ZERO": [0]}[sign]
        outs = set()
        for v in samples:
            if isinstance(op, ast.Gt):
                outs.add(v > c)
            elif isinstance(op, ast.GtE):
                outs.add(v >= c)
            elif isinstance(op, ast.Lt):
                outs.add(v < c)
            elif isinstance(op, ast.LtE):
                outs.add(v <= c)
            elif isinstance(op, ast.Eq):
                outs.add(v == c)
            elif isinstance(op, ast.NotEq):
                outs.add(v != c)
            else:
                return [True, False]
        return sorted(outs)

    # ------------------------------------------------------------------ appends
    def classify(self, e):
        """'sep' | 'slash' | 'start' | 'suffix' | 'other'"""
        if isinstance(e, ast.Constant) and isinstance(e.value, str):
            if e.value == "":
                return "nothing"
            return "slash" if "/" in e.value else "sep"
        roles = self._roles(e)
        if "rep" in roles:
            return "start"
        if "exp" in roles or "uexp" in roles:
            return "suffix"
        return "other"

    def _roles(self, e):
        """Which loop variables (representation / exponent) an expression derives from, through locals."""
        roles = set()

        def rec(n, unsigned):
            if isinstance(n, ast.Name):
                if n.id == self._counter:
                    return
                if self._is_rep(n.id):
                    roles.add("rep")
                elif self._is_exp(n.id):
                    roles.add("uexp" if unsigned else "exp")
                else:
                    t = self.taint.get(n.id, set())
                    roles.update(("uexp" if (r == "exp" and unsigned) else r) for r in t)
                return
            if (isinstance(n, ast.Call) and isinstance(n.func, ast.Name) and n.func.id == "abs") or (isinstance(n, ast.UnaryOp) and isinstance(n.op, ast.USub)):
                unsigned = True
            for c in ast.iter_child_nodes(n):
                rec(c, unsigned)

        rec(e, False)
        return roles

    def literals(self, e, _depth=0):
        """String literals that are part of the text an appended expression renders (through locals)."""
        out = set()
        for n in ast.walk(e):
            if isinstance(n, ast.Constant) and isinstance(n.value, str) and not (n is e):
                out.add(n.value)
            elif isinstance(n, ast.Name) and n.id in self.local_values and _depth < 4:
                for v in self.local_values[n.id]:
                    if isinstance(v, ast.Constant) and isinstance(v.value, str):
                        out.add(v.value)
                    else:
                        out |= self.literals(v, _depth + 1)
        return out

    def append_expr(self, node, e, states):
        """An appended expression, piece by piece: `a + b` appends a then b; `x if c else y` appends x or y according to
        the condition; a local holding literal text appends that text."""
        if isinstance(e, ast.BinOp) and isinstance(e.op, ast.Add):
            return self.append_expr(node, e.right, self.append_expr(node, e.left, states))
        if isinstance(e, ast.IfExp):
            out = set()
            for s in states:
                for outcome, s2 in self.cond(e.test, s):
                    out |= self.append_expr(node, e.body if outcome else e.orelse, {s2})
            return out
        if isinstance(e, ast.Name) and e.id in self.str_locals:
            out = set()
            for s in states:
                v = s.bool(e.id) if s is not None else None
                if not isinstance(v, str):
                    raise AnalysisError("string builder: the text held by `%s` is not known where it is appended (line %d)" % (e.id, node.lineno))
                out |= self.append(node, ast.copy_location(ast.Constant(value=v), e), {s})
            return out
        return self.append(node, e, states)

    def append(self, node, e, states):
        self.n_appends += 1
        kind = self.classify(e)
        roles = self._roles(e) if kind in ("start", "suffix") else set()
        if not any(n is node and (e0 is e or ast.dump(e0) == ast.dump(e)) for n, e0, _ in self.append_exprs):
            self.append_exprs.append((node, e, roles))
        if roles & {"exp", "uexp"}:
            for lp in self._loop_stack:
                self.loop_renders_exp[id(lp)] = True
        out = set()
        self.append_states.setdefault(id(node), set()).update(x for x in states if x is not None)
        for s in states:
            if s is None:
                raise AnalysisError("string builder: append before the accumulator is initialised (line %d)" % node.lineno)
            if kind == "nothing":
                out.add(s)
            elif kind == "sep":
                self.seps.add(e.value)
                if s.last != FACTOR:
                    self.event("misplaced-sep", node, s)  # ".m" / "m..s": a separator with no factor before it
                out.add(s.with_(last=SEP))
            elif kind == "slash":
                self.seps.add(e.value)
                if s.region == DEN:
                    self.event("second-slash", node, s)
                if e.value.strip().startswith("1"):
                    if s.last == FACTOR:
                        self.event("one-after-factor", node, s)  # "m" + "1/" + "s"
                elif s.last == EMPTY:
                    self.event("leading-slash", node, s)  # "/s" instead of "1/s"
                out.add(s.with_(region=DEN, last=SEP))
            elif kind == "start":
                if s.last == FACTOR:
                    self.event("no-separator", node, s)
                if s.sign == POS and s.region == DEN:
                    self.event("wrong-side", node, s)
                if s.sign == NEG and s.region == NUM:
                    self.event("wrong-side", node, s)
                if s.sign == NEG and "exp" in roles:
                    self.event("signed-exponent", node, s)
                out.add(s.with_(last=FACTOR))
            elif kind == "suffix":
                if s.sign == NEG and "exp" in roles:
                    self.event("signed-exponent", node, s)
                if s.last != FACTOR:
                    self.event("suffix-without-factor", node, s)
                out.add(s.with_(last=FACTOR))
            else:
                raise AnalysisError("string builder: cannot classify the appended expression %r (line %d)" % (ast.unparse(e), node.lineno))
        return out
