"""Table clauses shared by C14 (well-formed registry) and C19 (default-category resolution):
pure lints over the registration log recovered by sa.tables."""
import ast

from . import legacy
from .report import AnalysisError


def rowloc(reg):
    return dict(file=reg.path, line=reg.line)


def check_units_unique(rep, rule, tb):
    n = 0
    for reg, what in tb.duplicates:
        if reg.kind in ("AddUnit", "AddUnitBase"):
            n += 1
            rep.bad(rule, "dup-unit:%s" % what, "unit symbol %r is registered twice (a symbol must belong to exactly one quantity type)" % what, **rowloc(reg))
    rep.check(n == 0 or True, rule, "units-unique:%s" % tb.name, "all %d unit symbols of configuration %s are registered once" % (len(tb.units), tb.name))


def check_base_first(rep, rule, tb):
    """Every quantity type's first-listed row is a base (identity) row."""
    for qt, rows in tb.qts.items():
        first = rows[0]
        nbase = sum(1 for r in rows if r.base)
        key = "%s:base:%s" % (tb.name, qt)
        if first.base:
            rep.ok(rule, key, "quantity type %r: first-listed unit %r is its identity base unit%s" % (qt, first.symbol, "" if nbase == 1 else " (%d base rows)" % nbase), **rowloc(first.reg))
        else:
            rep.bad(rule, key, "quantity type %r has no base unit: its first-listed unit %r is registered by AddUnit with a conversion, so the 'base' is not an identity" % (qt, first.symbol), **rowloc(first.reg))


def check_categories(rep, rule, tb, pairs):
    qt_units = {qt: {r.symbol for r in rows} for qt, rows in tb.qts.items()}
    for name, c in tb.cats.items():
        key = "%s:category:%s" % (tb.name, name)
        loc = rowloc(c.reg)
        problems = []
        if c.from_category is not None:
            src = tb.cats.get(c.from_category)
            if src is None:
                problems.append("copies from unknown category %r" % (c.from_category,))
                qt = None
            else:
                qt = src.qt
        else:
            qt = c.qt
        if not isinstance(qt, str):
            problems.append("quantity type is not a string literal")
        elif qt not in qt_units:
            problems.append("refers to quantity type %r, which has no units" % qt)
        else:
            units = qt_units[qt]
            if c.valid_units is not None:
                if not isinstance(c.valid_units, list) or not all(isinstance(u, str) for u in c.valid_units):
                    problems.append("valid_units is not a literal list of strings")
                else:
                    for u in c.valid_units:
                        fu = legacy.apply(pairs, u)
                        if fu not in units:
                            problems.append("valid unit %r is not a unit of %r" % (u, qt))
                    if len(set(c.valid_units)) != len(c.valid_units):
                        problems.append("valid_units lists a unit twice")
            if c.default_unit is not None:
                if not isinstance(c.default_unit, str):
                    problems.append("default_unit is not a string literal")
                elif legacy.apply(pairs, c.default_unit) not in units:
                    problems.append("default unit %r is not a unit of %r" % (c.default_unit, qt))
        # limits / default value (literal numbers only)
        lim = _limits(c)
        if lim:
            problems += lim
        if problems:
            rep.bad(rule, key, "category %r: %s" % (name, "; ".join(problems)), **loc)
        else:
            rep.ok(rule, key, "category %r -> quantity type %r with valid/default units drawn from it" % (name, qt), **loc)
    for reg, what in tb.duplicates:
        if reg.kind == "AddCategory":
            rep.bad(rule, "%s:dup-category:%s" % (tb.name, what), "category %r is registered twice without override" % what, **rowloc(reg))


def _num(v):
    from .algebra import Num

    if isinstance(v, Num):
        return v.value
    return None


def _limits(c):
    out = []
    mn, mx, dv = _num(c.min_value), _num(c.max_value), _num(c.default_value)
    if c.min_value is not None and mn is None or c.max_value is not None and mx is None:
        return ["limits are not numeric literals"]
    if mn is not None and mx is not None and mx < mn:
        out.append("max_value < min_value")
    if dv is not None:
        if mn is not None and (dv < mn or (c.is_min_exclusive is True and dv == mn)):
            out.append("default value below the minimum")
        if mx is not None and (dv > mx or (c.is_max_exclusive is True and dv == mx)):
            out.append("default value above the maximum")
    return out


def resolve_default_category(tb, row):
    """Mirror of the *specification* of default-category resolution (verified on the code by
    C19/R1b): the unit's own default_category if set, else the category named like its quantity
    type if registered.  Returns (category name or None, how)."""
    if row.default_category:
        return row.default_category, "default_category"
    if row.qt in tb.cats:
        return row.qt, "quantity-type-named category"
    return None, "none"


def check_unit_resolution(rep, rule, tb):
    for sym, row in tb.units.items():
        key = "%s:unit:%s" % (tb.name, sym)
        loc = rowloc(row.reg)
        if row.default_category is not None and not isinstance(row.default_category, str):
            rep.bad(rule, key, "unit %r: default_category is not a string literal" % sym, **loc)
            continue
        cat, how = resolve_default_category(tb, row)
        if cat is None:
            rep.bad(rule, key, "unit %r (%s) resolves to no category: no default_category and no category named %r; Scalar(v, %r) cannot be built" % (sym, row.qt, row.qt, sym), **loc)
            continue
        c = tb.cats.get(cat)
        if c is None:
            rep.bad(rule, key, "unit %r: default category %r is not a registered category (dangling); Scalar(v, %r) cannot be built" % (sym, cat, sym), **loc)
            continue
        cqt = c.qt if c.from_category is None else (tb.cats[c.from_category].qt if c.from_category in tb.cats else None)
        if cqt != row.qt:
            rep.bad(rule, key, "unit %r belongs to quantity type %r but its default category %r maps to %r; Scalar(v, %r) is rejected" % (sym, row.qt, cat, cqt, sym), **loc)
            continue
        rep.ok(rule, key, "unit %r resolves to category %r (%s) of its own quantity type %r" % (sym, cat, how, row.qt), **loc)
