"""A7 filler interpreter: recover the registration call log of the database fillers by constant
propagation over their source (no import, no execution of barril).

Handled statement shapes (census of the pinned tree, DESIGN.md §4/A7): assignments of literals and
of factory calls, expression statements evaluated recursively (tuples of calls), `if` on
parameters / `is None` tests, `for` over `.items()` of a literal class-level dict (unrolled), calls
to other fillers (inlined with parameter binding), function-level imports of fillers, `return`.
Anything else at a registration call is an AnalysisError naming the statement.
"""
import ast
import collections
from fractions import Fraction

from .algebra import Num, fold
from .report import AnalysisError

REG_METHODS = ("AddUnitBase", "AddUnit", "AddCategory", "Clear")


class DbRef:
    def __repr__(self):
        return "<db>"


class ClassRef:
    def __init__(self, name):
        self.name = name


class Closure:
    """Result of calling a conversion factory with literal coefficients."""

    def __init__(self, factory, args, node, path):
        self.factory = factory  # Func
        self.args = args  # tuple of Num
        self.node = node
        self.path = path

    def __repr__(self):
        return "%s(%s)" % (self.factory.name, ", ".join(str(a.text or a.value) for a in self.args))


class FuncRef:
    def __init__(self, fn):
        self.fn = fn


class LambdaRef:
    def __init__(self, node, path):
        self.node = node
        self.path = path


class Unknown:
    def __init__(self, why):
        self.why = why

    def __repr__(self):
        return "<unknown: %s>" % self.why


class Reg:
    """One registration call."""

    __slots__ = ("kind", "args", "node", "path", "line", "via")

    def __init__(self, kind, args, node, path, via):
        self.kind = kind  # AddUnitBase | AddUnit | AddCategory | Clear
        self.args = args  # dict param name -> value (only the ones passed)
        self.node = node
        self.path = path
        self.line = node.lineno
        self.via = via  # qualified name of the filler the call is written in


class Interp:
    def __init__(self, model):
        self.m = model
        self.log = []
        self._lines = {}
        self.depth = 0
        self.statements = 0

    # ---------------------------------------------------------------- source text of literals
    def text_of(self, path):
        if path not in self._lines:
            self._lines[path] = self.m.trees[path][1].splitlines()
        lines = self._lines[path]

        def get(node):
            if node.lineno != node.end_lineno:
                return ast.unparse(node)
            return lines[node.lineno - 1][node.col_offset : node.end_col_offset]

        return get

    # ---------------------------------------------------------------- evaluation
    def ev(self, e, env, fn):
        if isinstance(e, ast.Constant):
            if isinstance(e.value, (int, float)) and not isinstance(e.value, bool):
                return fold(e, self.text_of(fn.path))
            return e.value
        if isinstance(e, ast.Name):
            if e.id in env:
                return env[e.id]
            if e.id in ("True", "False", "None"):
                return {"True": True, "False": False, "None": None}[e.id]
            if e.id in self.m.classes:
                return ClassRef(e.id)
            mf = self.m.module_funcs.get(fn.module, {}).get(e.id)
            if mf is not None:
                return FuncRef(mf)
            return Unknown("free name %s" % e.id)
        if isinstance(e, (ast.List, ast.Tuple)):
            return [self.ev(x, env, fn) for x in e.elts]
        if isinstance(e, ast.Dict):
            return collections.OrderedDict((self.ev(k, env, fn), self.ev(v, env, fn)) for k, v in zip(e.keys, e.values))
        if isinstance(e, (ast.BinOp, ast.UnaryOp)):
            try:
                return fold(e, self.text_of(fn.path))
            except AnalysisError:
                if isinstance(e, ast.UnaryOp) and isinstance(e.op, ast.Not):
                    v = self.ev(e.operand, env, fn)
                    if isinstance(v, (bool, type(None))):
                        return not v
                return Unknown("unfoldable expression %s" % ast.unparse(e)[:60])
        if isinstance(e, ast.Compare) and len(e.ops) == 1 and isinstance(e.ops[0], (ast.Is, ast.IsNot)):
            l = self.ev(e.left, env, fn)
            r = self.ev(e.comparators[0], env, fn)
            if r is None and not isinstance(l, Unknown):
                res = l is None
                return res if isinstance(e.ops[0], ast.Is) else not res
            return Unknown("comparison")
        if isinstance(e, ast.BoolOp):
            # short-circuit evaluation over decided operands
            last = None
            for v_ in e.values:
                last = self.ev(v_, env, fn)
                if isinstance(last, Unknown) or not isinstance(last, (bool, type(None), Num, str, list, dict)):
                    return Unknown("undecided operand %s" % ast.unparse(v_)[:40])
                truth = bool(last) if not isinstance(last, Num) else (float(last) != 0.0 if not isinstance(last, bool) else last)
                if isinstance(e.op, ast.And) and not truth:
                    return last
                if isinstance(e.op, ast.Or) and truth:
                    return last
            return last
        if isinstance(e, ast.Lambda):
            return LambdaRef(e, fn.path)
        if isinstance(e, ast.Attribute):
            b = self.ev(e.value, env, fn)
            if isinstance(b, ClassRef):
                v = self.m.class_attr(b.name, e.attr)
                if v is not None:
                    ci_fn = self.m.lookup(b.name, e.attr)
                    if ci_fn is not None:
                        return FuncRef(ci_fn)
                    # class-level literal (e.g. the category alias dict)
                    owner = [c for c in self.m.mro(b.name) if e.attr in self.m.classes[c].class_attrs][0]
                    fake = type("F", (), {"path": self.m.classes[owner].path, "module": self.m.classes[owner].module})()
                    return self.ev(v, {}, fake)
                mfn = self.m.lookup(b.name, e.attr)
                if mfn is not None:
                    return ("bound", b, mfn)
            if isinstance(b, DbRef):
                mfn = self.m.lookup("UnitDatabase", e.attr)
                if mfn is not None:
                    return ("bound", b, mfn)
            return Unknown("attribute %s" % ast.unparse(e)[:60])
        if isinstance(e, ast.Call):
            return self.call(e, env, fn)
        return Unknown("expression %s" % type(e).__name__)

    def call(self, c, env, fn):
        f = c.func
        # dict.items() on a literal dict
        if isinstance(f, ast.Attribute) and f.attr == "items" and not c.args:
            b = self.ev(f.value, env, fn)
            if isinstance(b, dict):
                return [[k, v] for k, v in b.items()]
            return Unknown("items() on non-literal")
        callee = self.ev(f, env, fn)
        args = []
        kws = collections.OrderedDict()
        star_unknown = False
        for a in c.args:
            if isinstance(a, ast.Starred):
                v = self.ev(a.value, env, fn)
                if isinstance(v, list):
                    args.extend(v)  # f(*[a, b]) == f(a, b)
                else:
                    star_unknown = True
            else:
                args.append(self.ev(a, env, fn))
        for k in c.keywords:
            if k.arg is None:
                v = self.ev(k.value, env, fn)
                if isinstance(v, dict) and all(isinstance(x, str) for x in v):
                    kws.update(v)  # f(**{"a": 1}) == f(a=1)
                else:
                    star_unknown = True
            else:
                kws[k.arg] = self.ev(k.value, env, fn)
        if star_unknown:
            if self._mentions_registration(c) or self._touches_db(c, env):
                raise AnalysisError("%s:%d: star-arguments at a registration call" % (fn.path, c.lineno))
            return Unknown("star call")
        if isinstance(f, ast.Name) and f.id in ("dict", "list", "tuple") and f.id not in env:
            if f.id == "dict" and not args:
                return collections.OrderedDict(kws)
            if f.id in ("list", "tuple") and len(args) == 1 and isinstance(args[0], list) and not kws:
                return list(args[0])
            if f.id in ("list", "tuple") and not args and not kws:
                return []
        if isinstance(f, ast.Attribute) and f.attr in REG_METHODS and not (isinstance(callee, tuple) and callee and callee[0] == "bound"):
            raise AnalysisError("%s:%d: registration call `%s` on a receiver that is not the database being filled" % (fn.path, c.lineno, ast.unparse(f)[:60]))
        if isinstance(callee, ClassRef):
            if callee.name == "UnitDatabase" or "UnitDatabase" in self.m.mro(callee.name):
                return DbRef()
            return Unknown("constructor %s" % callee.name)
        target = None
        recv = None
        if isinstance(callee, FuncRef):
            target = callee.fn
        elif isinstance(callee, tuple) and callee and callee[0] == "bound":
            recv, target = callee[1], callee[2]
        if target is None:
            return Unknown("call of %s" % ast.unparse(f)[:60])
        # bind parameters
        params = list(target.params)
        bound = collections.OrderedDict()
        if target.is_method and not target.is_staticmethod and params:
            bound[params[0]] = recv if recv is not None else ClassRef(target.cls)
            if isinstance(recv, ClassRef) and not target.is_classmethod:
                # explicit unbound call: first positional argument is self
                bound.pop(params[0])
                pos = params
            else:
                pos = params[1:]
        else:
            pos = params
        ta = target.node.args
        if ta.vararg is not None:
            npos = len(ta.posonlyargs) + len(ta.args) - (len(params) - len(pos))
            pos = pos[:npos]
            bound[ta.vararg.arg] = list(args[npos:])
            args = args[:npos]
        for i, a in enumerate(args):
            if i >= len(pos):
                raise AnalysisError("%s:%d: too many positional arguments for %s" % (fn.path, c.lineno, target.qual))
            bound[pos[i]] = a
        for k, v in kws.items():
            if k not in params:
                raise AnalysisError("%s:%d: unknown keyword %r for %s" % (fn.path, c.lineno, k, target.qual))
            bound[k] = v
        # registration call?
        if target.cls == "UnitDatabase" and target.name in REG_METHODS and isinstance(recv, DbRef):
            passed = collections.OrderedDict((k, v) for k, v in bound.items() if k != params[0])
            self.log.append(Reg(target.name, passed, c, fn.path, fn.qual))
            return None
        # conversion factory: a module-level function that returns a nested def computing from its params
        if self.is_factory(target):
            for a in args + list(kws.values()):
                if not isinstance(a, Num):
                    raise AnalysisError("%s:%d: non-literal coefficient passed to %s" % (fn.path, c.lineno, target.name))
            vals = tuple(bound.get(p) for p in params)
            if any(v is None for v in vals):
                raise AnalysisError("%s:%d: missing coefficient for %s" % (fn.path, c.lineno, target.name))
            return Closure(target, vals, c, fn.path)
        # another filler, or any helper that is handed the database (or a bound registration method): run it
        if self.reaches_registration(target) or any(self._is_db(v) for v in bound.values()) or (target.parent is not None and any(self._is_db(v) for v in env.values())):
            return self.run(target, bound, outer=env if target.parent is not None else None)
        # a small pure helper whose body is one return expression (e.g. a local `pair(a, b, c, d)` building both closures)
        body = [st for st in target.node.body if not (isinstance(st, ast.Expr) and isinstance(st.value, ast.Constant))]
        if len(body) == 1 and isinstance(body[0], ast.Return) and body[0].value is not None and self.depth < 12:
            henv = dict(env) if target.parent is not None else {}
            henv.update(bound)
            self.depth += 1
            try:
                return self.ev(body[0].value, henv, target)
            finally:
                self.depth -= 1
        # any other small helper of the table module: interpret its body (pure: nothing of the database flows in)
        if target.path == fn.path and self.depth < 8 and sum(1 for _ in ast.walk(target.node)) < 400:
            return self.run(target, bound, outer=env if target.parent is not None else None)
        return Unknown("call of %s" % target.qual)

    def _is_db(self, v):
        if isinstance(v, DbRef):
            return True
        if isinstance(v, tuple) and len(v) == 3 and v[0] == "bound" and isinstance(v[1], DbRef):
            return True
        if isinstance(v, list):
            return any(self._is_db(x) for x in v)
        if isinstance(v, dict):
            return any(self._is_db(x) for x in v.values())
        return False

    def _touches_db(self, node, env):
        """Does the statement / expression mention a local that holds the database or one of its bound
        registration methods (an alias like `add = db.AddUnit`), or a local function that does?"""
        for n in ast.walk(node):
            if isinstance(n, ast.Name) and n.id in env:
                v = env[n.id]
                if self._is_db(v):
                    return True
                if isinstance(v, FuncRef) and (self.reaches_registration(v.fn) or v.fn.parent is not None and any(self._is_db(x) for x in env.values()) and self._uses_free_db(v.fn, env)):
                    return True
        return False

    def _uses_free_db(self, g, env):
        return any(isinstance(n, ast.Name) and n.id in env and self._is_db(env[n.id]) for n in ast.walk(g.node))

    # ---------------------------------------------------------------- classification helpers
    _factory_cache = None

    def is_factory(self, fn):
        if self._factory_cache is None:
            self._factory_cache = {}
        if fn.qual not in self._factory_cache:
            ok = False
            if fn.cls is None:
                inner = [n for n in fn.node.body if isinstance(n, ast.FunctionDef)]
                rets = [n for n in fn.node.body if isinstance(n, ast.Return)]
                if len(inner) == 1 and len(rets) == 1 and isinstance(rets[0].value, ast.Name) and rets[0].value.id == inner[0].name:
                    ok = True
                # `return tag(ret, a, b, c, d)` where `tag` hands its first argument back (it only stamps attributes on it)
                elif len(inner) == 1 and len(rets) == 1 and isinstance(rets[0].value, ast.Call) and isinstance(rets[0].value.func, ast.Name) and rets[0].value.args \
                        and isinstance(rets[0].value.args[0], ast.Name) and rets[0].value.args[0].id == inner[0].name:
                    h = self.m.module_funcs.get(fn.module, {}).get(rets[0].value.func.id)
                    if h is not None and h.params:
                        hrets = [n for n in ast.walk(h.node) if isinstance(n, ast.Return)]
                        if hrets and all(isinstance(r.value, ast.Name) and r.value.id == h.params[0] for r in hrets):
                            ok = True
            self._factory_cache[fn.qual] = ok
        return self._factory_cache[fn.qual]

    _reach_cache = None

    def reaches_registration(self, fn, _stack=()):
        if self._reach_cache is None:
            self._reach_cache = {}
        if fn.qual in self._reach_cache:
            return self._reach_cache[fn.qual]
        if fn.qual in _stack:
            return False
        res = False
        for n in ast.walk(fn.node):
            if isinstance(n, ast.Call) and isinstance(n.func, ast.Attribute) and n.func.attr in REG_METHODS:
                res = True
                break
        if not res:
            for n in ast.walk(fn.node):
                if isinstance(n, ast.Call):
                    name = n.func.attr if isinstance(n.func, ast.Attribute) else (n.func.id if isinstance(n.func, ast.Name) else None)
                    for g in self.m.by_name.get(name, []):
                        if g is not fn and g.name.startswith("Fill") and self.reaches_registration(g, _stack + (fn.qual,)):
                            res = True
        self._reach_cache[fn.qual] = res
        return res

    def _mentions_registration(self, node):
        return any(isinstance(n, ast.Attribute) and n.attr in REG_METHODS for n in ast.walk(node))

    # ---------------------------------------------------------------- running a filler
    def run(self, fn, bound, outer=None):
        self.depth += 1
        if self.depth > 8:
            raise AnalysisError("filler inlining too deep at %s" % fn.qual)
        env = dict(outer) if outer else {}
        a = fn.node.args
        names = [x.arg for x in a.posonlyargs + a.args]
        defaults = dict(zip(names[len(names) - len(a.defaults):], a.defaults))
        for x, d in zip(a.kwonlyargs, a.kw_defaults):
            if d is not None:
                defaults[x.arg] = d
        for p in fn.params:
            if p in bound:
                env[p] = bound[p]
            elif p in defaults:
                env[p] = self.ev(defaults[p], {}, fn)
            else:
                env[p] = Unknown("unbound parameter %s" % p)
        ret = self.block(fn.node.body, env, fn)
        self.depth -= 1
        return ret[1] if ret else None

    def block(self, body, env, fn):
        """Returns ('return', value) when a return statement was executed, else None."""
        for st in body:
            self.statements += 1
            if isinstance(st, ast.Expr):
                if isinstance(st.value, ast.Constant):
                    continue  # docstring
                self.ev(st.value, env, fn)
            elif isinstance(st, ast.Assign):
                v = self.ev(st.value, env, fn)
                for t in st.targets:
                    self.assign(t, v, env, fn, st)
            elif isinstance(st, ast.AnnAssign):
                if st.value is not None:
                    self.assign(st.target, self.ev(st.value, env, fn), env, fn, st)
            elif isinstance(st, ast.If):
                t = self.ev(st.test, env, fn)
                if isinstance(t, Unknown) or not isinstance(t, (bool, type(None), Num, str, list, dict)):
                    if self._mentions_registration(st) or self._touches_db(st, env):
                        raise AnalysisError("%s:%d: cannot decide the condition `%s` guarding registration calls" % (fn.path, st.lineno, ast.unparse(st.test)[:60]))
                    continue
                truth = bool(t.value) if isinstance(t, Num) else bool(t)
                r = self.block(st.body if truth else st.orelse, env, fn)
                if r:
                    return r
            elif isinstance(st, ast.For):
                it = self.ev(st.iter, env, fn)
                if not isinstance(it, list):
                    if self._mentions_registration(st) or self._touches_db(st, env):
                        raise AnalysisError("%s:%d: cannot unroll loop over `%s` containing registration calls" % (fn.path, st.lineno, ast.unparse(st.iter)[:60]))
                    continue
                for item in it:
                    self.assign(st.target, item, env, fn, st)
                    r = self.block(st.body, env, fn)
                    if r:
                        return r
            elif isinstance(st, ast.Return):
                return ("return", self.ev(st.value, env, fn) if st.value is not None else None)
            elif isinstance(st, ast.ImportFrom):
                for al in st.names:
                    cands = [g for g in self.m.by_name.get(al.name, []) if g.cls is None and g.parent is None]
                    # resolve the module relative to the importing module
                    modname = (st.module or "").split(".")[-1]
                    cands = [g for g in cands if g.module.split(".")[-1] == modname] or cands
                    if len(cands) == 1:
                        env[al.asname or al.name] = FuncRef(cands[0])
                    elif al.name in self.m.classes:
                        env[al.asname or al.name] = ClassRef(al.name)
            elif isinstance(st, (ast.Import, ast.Pass, ast.FunctionDef, ast.ClassDef, ast.Assert, ast.Global, ast.Nonlocal)):
                if isinstance(st, ast.FunctionDef):
                    sub = self.m.funcs.get(fn.qual + "." + st.name)
                    if sub is not None:
                        env[st.name] = FuncRef(sub)
                continue
            else:
                if self._mentions_registration(st) or self._touches_db(st, env):
                    raise AnalysisError("%s:%d: statement kind %s around registration calls is not interpreted" % (fn.path, st.lineno, type(st).__name__))
        return None

    def assign(self, t, v, env, fn, st):
        if isinstance(t, ast.Name):
            env[t.id] = v
        elif isinstance(t, (ast.Tuple, ast.List)):
            if isinstance(v, list) and len(v) == len(t.elts):
                for x, y in zip(t.elts, v):
                    self.assign(x, y, env, fn, st)
            else:
                for x in t.elts:
                    self.assign(x, Unknown("unpacking"), env, fn, st)
        # attribute / subscript stores (ret.__a__ = a ...) are irrelevant to the log


# ---------------------------------------------------------------------- table = replayed log
class UnitRow:
    __slots__ = ("symbol", "qt", "name", "base", "tobase", "frombase", "default_category", "reg", "order")


class CatRow:
    __slots__ = ("name", "qt", "valid_units", "default_unit", "default_value", "min_value", "max_value",
                 "is_min_exclusive", "is_max_exclusive", "override", "from_category", "caption", "reg")


class Table:
    """The registry contents implied by a registration log, using only the ordering facts that
    C14 verifies on the method bodies (base goes first; later category replaces earlier)."""

    def __init__(self, name, log):
        self.name = name
        self.log = log
        self.units = collections.OrderedDict()
        self.qts = collections.OrderedDict()
        self.cats = collections.OrderedDict()
        self.problems = []  # (reg, message): malformed calls (non-literal names etc.)
        self.duplicates = []
        for i, reg in enumerate(log):
            if reg.kind == "Clear":
                self.units.clear()
                self.qts.clear()
                self.cats.clear()
            elif reg.kind in ("AddUnit", "AddUnitBase"):
                a = reg.args
                for k in ("quantity_type", "name", "unit"):
                    if not isinstance(a.get(k), str):
                        self.problems.append((reg, "%s is not a string literal: %r" % (k, a.get(k))))
                if reg in [p[0] for p in self.problems]:
                    continue
                r = UnitRow()
                r.symbol, r.qt, r.name = a["unit"], a["quantity_type"], a["name"]
                r.base = reg.kind == "AddUnitBase"
                r.tobase = a.get("tobase")
                r.frombase = a.get("frombase")
                r.default_category = a.get("default_category")
                r.reg = reg
                r.order = i
                if r.symbol in self.units:
                    self.duplicates.append((reg, r.symbol))
                    continue
                self.units[r.symbol] = r
                lst = self.qts.setdefault(r.qt, [])
                if r.base:
                    lst.insert(0, r)
                else:
                    lst.append(r)
            elif reg.kind == "AddCategory":
                a = reg.args
                c = CatRow()
                c.name = a.get("category")
                c.qt = a.get("quantity_type")
                c.valid_units = a.get("valid_units")
                c.default_unit = a.get("default_unit")
                c.default_value = a.get("default_value")
                c.min_value = a.get("min_value")
                c.max_value = a.get("max_value")
                c.is_min_exclusive = a.get("is_min_exclusive", False)
                c.is_max_exclusive = a.get("is_max_exclusive", False)
                c.override = a.get("override", False)
                c.from_category = a.get("from_category")
                c.caption = a.get("caption")
                c.reg = reg
                if not isinstance(c.name, str):
                    self.problems.append((reg, "category name is not a string literal"))
                    continue
                if c.name in self.cats and c.override is not True:
                    self.duplicates.append((reg, c.name))
                self.cats[c.name] = c


CONFIGS = ("posc", "posc-nocat", "simple")


def extract(model):
    """Run the fillers the library ships.  Returns {config: Table}."""
    out = {}
    db_cls = model.cls("UnitDatabase")
    # default singleton: CreateDefaultSingleton -> cls.FillUnitDatabaseWithPosc(result)
    it = Interp(model)
    it.run(model.method("UnitDatabase", "CreateDefaultSingleton"), {"cls": ClassRef("UnitDatabase")})
    out["posc"] = Table("posc", it.log)
    it2 = Interp(model)
    it2.run(model.method("UnitDatabase", "FillUnitDatabaseWithPosc"),
            {"cls": ClassRef("UnitDatabase"), "unit_database": DbRef(), "fill_categories": False})
    out["posc-nocat"] = Table("posc-nocat", it2.log)
    it3 = Interp(model)
    it3.run(model.method("UnitDatabase", "FillSimple"), {"cls": ClassRef("UnitDatabase"), "unit_database": DbRef()})
    out["simple"] = Table("simple", it3.log)
    out["_statements"] = it.statements + it2.statements + it3.statements
    return out


def second_opinion(model):
    """Deliberately dumb census of registration call shapes in posc.py (no environment, no
    inlining): counts calls by method name and collects the literal unit symbols.  Used by the
    thorough tier to cross-check the interpreter."""
    counts = collections.Counter()
    symbols = []
    cats = []
    for rel, (tree, src) in model.trees.items():
        if not rel.endswith("posc.py"):
            continue
        for n in ast.walk(tree):
            if isinstance(n, ast.Call) and isinstance(n.func, ast.Attribute) and n.func.attr in REG_METHODS:
                counts[n.func.attr] += 1
                if n.func.attr in ("AddUnit", "AddUnitBase") and len(n.args) >= 3 and isinstance(n.args[2], ast.Constant):
                    symbols.append(n.args[2].value)
                if n.func.attr == "AddCategory" and n.args and isinstance(n.args[0], ast.Constant):
                    cats.append(n.args[0].value)
    return counts, symbols, cats
