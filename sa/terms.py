"""A6 term normalisation: rewrite an expression of a function into a term over the function's
parameters, `self` fields, constants and calls by substituting local definitions (def-use,
flow-insensitive, with phi for several definitions).  Purely syntactic; nothing is executed.

Term forms (tuples):
  ('const', v) ('param', i, name) ('self',) ('field', attr) ('name', id)
  ('attr', base, name) ('call', f, args, kws) ('sub', base, index) ('elem', iter)
  ('tuple', items) ('list', items) ('op', opname, items) ('phi', alternatives)
  ('gen', elt, iters) ('lambda', text) ('cyc', name) ('expr', text)
"""
import ast
import collections

from .report import AnalysisError
from .srcmodel import own_statements

MAXDEPTH = 60


def _store_names(t):
    return [x for x in ast.walk(t) if isinstance(x, ast.Name) and isinstance(x.ctx, ast.Store)]


OPERATOR_MODULE = {"lt": "cmp:Lt", "le": "cmp:LtE", "gt": "cmp:Gt", "ge": "cmp:GtE", "eq": "cmp:Eq", "ne": "cmp:NotEq", "add": "Add", "sub": "Sub",
                   "mul": "Mult", "truediv": "Div", "floordiv": "FloorDiv", "mod": "Mod", "pow": "Pow"}


class Resolver:
    def __init__(self, model, fn, flow=True, inline=True):
        """flow=True: names are resolved through the definitions *reaching* the use (CFG-based
        reaching definitions); flow=False: through all definitions of the function."""
        self.m = model
        self.fn = fn
        self.defs = collections.defaultdict(list)  # name -> [(kind, node, path)]
        self._memo = {}
        self._keep = []
        self.flow = flow
        self.inline = inline
        self.cfg = None
        self.selfname = fn.params[0] if (fn.cls and fn.is_method and not fn.is_staticmethod and fn.params) else None
        from .srcmodel import own_nodes as _own
        self.globals_declared = {nm for x in _own(fn.node) if isinstance(x, ast.Global) for nm in x.names}
        self._collect()
        if self.flow:
            try:
                self._reaching()
            except AnalysisError:
                self.flow = False

    # ------------------------------------------------------------------ reaching definitions
    def _reaching(self):
        from .cfg import CFG

        cfg = self.cfg = CFG(self.fn.node)
        # definition sites: (name, idx) -> cfg node
        self.def_node = {}
        gen = collections.defaultdict(set)
        for name, lst in self.defs.items():
            for idx, (desc, path) in enumerate(lst):
                st = self.def_stmt.get((name, idx))
                nid = cfg.by_ast.get(id(st)) if st is not None else None
                if nid is None:
                    self.def_node[(name, idx)] = None  # flow-insensitive definition (walrus, comprehension)
                    continue
                self.def_node[(name, idx)] = nid
                gen[nid].add((name, idx))
        always = {k for k, v in self.def_node.items() if v is None}
        IN = collections.defaultdict(set)
        OUT = collections.defaultdict(set)
        params = {(p, -1) for p in self.fn.params} | {(g_, -1) for g_ in self.globals_declared}
        OUT[cfg.ENTRY] = set(params)
        work = list(cfg.kind)
        while work:
            n = work.pop()
            if n == cfg.ENTRY:
                new_in = set()
            else:
                new_in = set()
                for (p, lab) in cfg.pred[n]:
                    new_in |= OUT[p]
                    if lab == "exc":
                        new_in |= IN[p]
            g = gen.get(n, ())
            if g:
                killed = {nm for nm, _ in g}
                new_out = {d for d in new_in if d[0] not in killed} | set(g)
            else:
                new_out = new_in
            if n == cfg.ENTRY:
                new_out = set(params)
            if new_in != IN[n] or new_out != OUT[n]:
                IN[n] = new_in
                OUT[n] = new_out
                for (q, lab) in cfg.succ[n]:
                    work.append(q)
        self.IN = IN
        self.always = always

    def _at(self, e):
        """CFG node at which expression e is evaluated (None = unknown -> flow-insensitive)."""
        if not self.flow:
            return None
        x = e
        while x is not None:
            nid = self.cfg.by_ast.get(id(x))
            if nid is not None:
                return nid
            x = getattr(x, "_parent", None)
            if x is self.fn.node:
                return None
        return None

    # ------------------------------------------------------------------ definitions
    def _bind(self, target, value_desc):
        """value_desc: ('val', expr) | ('elem', iter expr); records a definition for every name in
        the target with the access path (tuple indices) into the value."""

        def rec(t, path):
            if isinstance(t, ast.Name):
                self.def_stmt[(t.id, len(self.defs[t.id]))] = self._cur_stmt
                self.defs[t.id].append((value_desc, path))
            elif isinstance(t, (ast.Tuple, ast.List)):
                for i, x in enumerate(t.elts):
                    if isinstance(x, ast.Starred):
                        rec(x.value, path + ("*",))
                    else:
                        rec(x, path + (i,))
            # attribute / subscript targets define no local

        rec(target, ())

    def _add_def(self, name, desc, st):
        self.def_stmt[(name, len(self.defs[name]))] = st
        self.defs[name].append((desc, ()))

    def _collect(self):
        self.def_stmt = {}
        self._cur_stmt = None
        for st in own_statements(self.fn.node):
            self._cur_stmt = st
            if isinstance(st, ast.Assign):
                for t in st.targets:
                    self._bind(t, ("val", st.value))
            elif isinstance(st, ast.AnnAssign) and st.value is not None:
                self._bind(st.target, ("val", st.value))
            elif isinstance(st, ast.AugAssign):
                if isinstance(st.target, ast.Name):
                    self._add_def(st.target.id, ("aug", st), st)
            elif isinstance(st, (ast.For, ast.AsyncFor)):
                self._bind(st.target, ("elem", st.iter))
            elif isinstance(st, (ast.With, ast.AsyncWith)):
                for it in st.items:
                    if it.optional_vars is not None:
                        self._bind(it.optional_vars, ("val", it.context_expr))
            elif isinstance(st, ast.Try):
                for h in st.handlers:
                    if h.name:
                        self._add_def(h.name, ("exc", h), h)
            elif isinstance(st, (ast.FunctionDef, ast.ClassDef)):
                self._add_def(st.name, ("def", st), st)
            elif isinstance(st, (ast.Import, ast.ImportFrom)):
                for al in st.names:
                    self._add_def((al.asname or al.name).split(".")[0], ("import", st, al), st)
        # walrus and comprehension targets
        self._cur_stmt = None
        for n in ast.walk(self.fn.node):
            if isinstance(n, ast.NamedExpr) and isinstance(n.target, ast.Name):
                self._add_def(n.target.id, ("val", n.value), None)

    # ------------------------------------------------------------------ terms
    def term(self, e, _visiting=frozenset(), _depth=0, _compenv=None, at="auto"):
        """Normalised term of expression e.  `at` is the CFG node at which e is evaluated
        ("auto": found from e's position; None: flow-insensitive)."""
        if at == "auto":
            at = self._at(e) if (self.flow and e is not None) else None
        if _depth > MAXDEPTH:
            return ("deep",)
        if _compenv is None:
            mk = (id(e), _visiting, at)
            hit = self._memo.get(mk)
            if hit is not None:
                return hit
            r = self._term(e, _visiting, _depth, None, at)
            self._memo[mk] = r
            self._keep.append(e)  # the key holds id(e): the node must stay alive as long as the memo does
            return r
        return self._term(e, _visiting, _depth, _compenv, at)

    def _term(self, e, _visiting, _depth, _compenv, at):
        d = _depth + 1
        T = lambda x, ce=_compenv: self.term(x, _visiting, d, ce, at)
        if e is None:
            return ("const", None)
        if isinstance(e, ast.Constant):
            return ("const", e.value)
        if isinstance(e, ast.Name):
            return self._name(e.id, _visiting, d, _compenv, at)
        if isinstance(e, ast.Attribute):
            if self.selfname and isinstance(e.value, ast.Name) and e.value.id == self.selfname and e.value.id not in self.defs:
                return ("field", e.attr)
            if isinstance(e.value, ast.Name) and e.value.id in ("operator", "_operator") and e.attr in OPERATOR_MODULE and e.value.id not in self.defs and e.value.id not in self.fn.params:
                return ("opfn", OPERATOR_MODULE[e.attr])  # operator.gt
            if isinstance(e.value, ast.Name) and e.value.id not in self.defs and e.value.id not in self.fn.params and not (_compenv and e.value.id in _compenv):
                mp = self._module_alias_path(e.value.id)
                if mp is not None:
                    # `constants_module.NAME`: the same as NAME imported by name
                    lit = self._module_literal(e.attr, mp)
                    return lit if lit is not None else ("name", e.attr)
            base = T(e.value)
            proj = self._record_projection(base, e.attr)
            if proj is not None:
                return proj
            return ("attr", base, e.attr)
        if isinstance(e, ast.Call):
            f = e.func
            # cast(T, x) is transparent
            if isinstance(f, ast.Name) and f.id == "cast" and len(e.args) == 2:
                return T(e.args[1])
            if isinstance(f, ast.Name) and f.id == "getattr" and len(e.args) == 2 and not e.keywords and isinstance(e.args[1], ast.Constant) and isinstance(e.args[1].value, str) \
                    and e.args[1].value.isidentifier() and "getattr" not in self.defs and "getattr" not in self.fn.params:
                return self._term(ast.copy_location(ast.Attribute(value=e.args[0], attr=e.args[1].value, ctx=ast.Load()), e), _visiting, _depth, _compenv, at)
            # getattr(x, "name", default): the attribute, or the default where it is missing
            if isinstance(f, ast.Name) and f.id == "getattr" and len(e.args) == 3 and not e.keywords and isinstance(e.args[1], ast.Constant) and isinstance(e.args[1].value, str) \
                    and "getattr" not in self.defs and "getattr" not in self.fn.params:
                return ("phi", (("attr", T(e.args[0]), e.args[1].value), T(e.args[2])))
            ft = T(f)
            args = []
            for a in e.args:
                if isinstance(a, ast.Starred):
                    st_ = T(a.value)
                    if st_[0] in ("tuple", "list"):
                        args.extend(st_[1])  # f(*(a, b), c) == f(a, b, c)
                    else:
                        args.append(st_)
                else:
                    args.append(T(a))
            kws = [(k.arg, T(k.value)) for k in e.keywords]
            if ft[0] == "attr" and ft[1] in (("name", "operator"), ("name", "_operator")) and ft[2] in OPERATOR_MODULE and len(args) == 2 and not kws:
                return ("op", OPERATOR_MODULE[ft[2]], tuple(args))  # operator.lt(a, b) is a < b
            if ft[0] == "lambda" and not kws and not any(isinstance(a_, ast.Starred) for a_ in e.args):
                # a lambda applied to arguments (a strategy handed to an inlined helper): its body with the parameters bound,
                # when the body mentions nothing but its parameters
                try:
                    lam = ast.parse(ft[1], mode="eval").body
                except SyntaxError:
                    lam = None
                if isinstance(lam, ast.Lambda) and not lam.args.vararg and not lam.args.kwarg and not lam.args.kwonlyargs and len(lam.args.args) == len(args) \
                        and {x.id for x in ast.walk(lam.body) if isinstance(x, ast.Name)} <= {a_.arg for a_ in lam.args.args} \
                        and not any(isinstance(x, (ast.Lambda, ast.ListComp, ast.GeneratorExp, ast.SetComp, ast.DictComp)) for x in ast.walk(lam.body)):
                    ce = dict(_compenv or {})
                    for a_, t_ in zip(lam.args.args, args):
                        ce[a_.arg] = t_
                    self._keep.append(lam)
                    return self._term(lam.body, _visiting, d, ce, None)
            if ft[0] == "opfn" and len(args) == 2 and not kws:
                return ("op", ft[1], tuple(args))  # `from operator import lt`, or an entry of a module table of such
            if isinstance(f, ast.Name) and not args and not kws:
                g = self.m.funcs.get(self.fn.qual + "." + f.id)
                if g is not None:
                    gt = self._local_generator(g)
                    if gt is not None:
                        return gt
            callee = self._callee(f, ft)
            if callee is not None:
                args, kws = _positional(callee, args, kws, bound=not isinstance(f, ast.Name) or callee.name == "__init__")
                inl = self._inline(callee, f, args, kws, _visiting, d) if self.inline else None
                if inl is not None:
                    return inl
            return ("call", ft, tuple(args), tuple(kws))
        if isinstance(e, ast.Subscript):
            if isinstance(e.slice, ast.Slice):
                return ("op", "slice", (T(e.value),))
            base, key = T(e.value), T(e.slice)
            if key[0] == "const" and isinstance(key[1], int) and not isinstance(key[1], bool):
                # an element of a tuple literal (also through alternatives): `pair[0]` with pair = (a, b)
                alts_ = base[1] if base[0] == "phi" else (base,)
                if all(a_[0] == "tuple" and -len(a_[1]) <= key[1] < len(a_[1]) for a_ in alts_):
                    picked = []
                    for a_ in alts_:
                        x_ = a_[1][key[1]]
                        if x_ not in picked:
                            picked.append(x_)
                    return picked[0] if len(picked) == 1 else ("phi", tuple(picked))
            if base[0] == "dict" and key[0] == "const":
                for k, v in base[1]:
                    if k == key:
                        return v  # lookup of a constant key in a constant module table
            return ("sub", base, key)
        if isinstance(e, ast.Tuple):
            return ("tuple", tuple(T(x) for x in e.elts))
        if isinstance(e, (ast.List, ast.Set)):
            return ("list", tuple(T(x) for x in e.elts))
        if isinstance(e, ast.BinOp):
            return ("op", type(e.op).__name__, (T(e.left), T(e.right)))
        if isinstance(e, ast.UnaryOp):
            return ("op", type(e.op).__name__, (T(e.operand),))
        if isinstance(e, ast.BoolOp):
            return ("op", type(e.op).__name__, tuple(T(v) for v in e.values))
        if isinstance(e, ast.Compare):
            return ("op", "cmp:" + ",".join(type(o).__name__ for o in e.ops), tuple(T(x) for x in [e.left] + e.comparators))
        if isinstance(e, ast.IfExp):
            return ("phi", (T(e.body), T(e.orelse)))
        if isinstance(e, (ast.GeneratorExp, ast.ListComp, ast.SetComp)):
            ce = dict(_compenv or {})
            iters = []
            for g in e.generators:
                it = self.term(g.iter, _visiting, d, ce, at)
                iters.append(it)
                self._bind_comp(g.target, ("elem", it), ce)
            return ("gen", self.term(e.elt, _visiting, d, ce, at), tuple(iters))
        if isinstance(e, ast.Lambda):
            return ("lambda", ast.unparse(e))
        if isinstance(e, ast.Starred):
            return T(e.value)
        if isinstance(e, ast.JoinedStr):
            return ("op", "fstring", tuple(T(v.value) for v in e.values if isinstance(v, ast.FormattedValue)))
        if isinstance(e, ast.NamedExpr):
            return T(e.value)
        return ("expr", ast.unparse(e)[:80])

    def _project(self, t, p):
        """project(), seeing through NamedTuple records"""
        if t[0] == "phi":
            parts = []
            for a_ in t[1]:
                x_ = self._project(a_, p)
                if x_ not in parts:
                    parts.append(x_)
            return parts[0] if len(parts) == 1 else ("phi", tuple(parts))
        rc = self.record_component(t, p) if isinstance(p, int) else None
        return rc if rc is not None else project(t, p)

    def _record_fields(self, cname):
        """{field: index of the constructor argument} for a plain record class: its __init__ does nothing but
        `self.<field> = <parameter>` and nothing else in the repository ever stores such a field."""
        cache = self.m.__dict__.setdefault("_record_classes", {})
        if cname in cache:
            return cache[cname]
        out = None
        ci = self.m.classes.get(cname)
        init = ci.methods.get("__init__") if ci is not None else None
        if ci is not None and init is None and getattr(ci, "bases", None) == ["NamedTuple"] and "__new__" not in ci.methods:
            # class X(NamedTuple): a: T; b: U   - the fields are the annotated names, in order
            names = [st.target.id for st in ci.node.body if isinstance(st, ast.AnnAssign) and isinstance(st.target, ast.Name)]
            plain = all(isinstance(st, (ast.AnnAssign, ast.FunctionDef)) or (isinstance(st, ast.Expr) and isinstance(st.value, ast.Constant)) or isinstance(st, ast.Pass) for st in ci.node.body)
            if names and plain and not any(isinstance(st, ast.AnnAssign) and st.value is not None for st in ci.node.body):
                out = {n_: i_ for i_, n_ in enumerate(names)}
            cache[cname] = out
            return out
        if init is not None and len(init.params) >= 2 and not getattr(ci, "bases", None):
            body = [st for st in init.node.body if not (isinstance(st, ast.Expr) and isinstance(st.value, ast.Constant))]
            fields = {}
            ok = bool(body)
            for st in body:
                if isinstance(st, ast.Assign) and len(st.targets) == 1 and isinstance(st.targets[0], ast.Attribute) and isinstance(st.targets[0].value, ast.Name) \
                        and st.targets[0].value.id == init.params[0] and isinstance(st.value, ast.Name) and st.value.id in init.params[1:] and st.targets[0].attr not in fields:
                    fields[st.targets[0].attr] = init.params.index(st.value.id) - 1
                else:
                    ok = False
            if ok and set(ci.methods) <= {"__init__", "__repr__"}:
                # no other store of these field names anywhere
                for path_, (tree, _src) in self.m.trees.items():
                    if path_.endswith("posc.py"):
                        continue
                    for n in ast.walk(tree):
                        if isinstance(n, ast.Attribute) and isinstance(n.ctx, (ast.Store, ast.Del)) and n.attr in fields:
                            inside = False
                            p_ = n
                            while p_ is not None:
                                if p_ is init.node or p_ is getattr(init, "orig_node", None):
                                    inside = True
                                p_ = getattr(p_, "_parent", None)
                            if not inside:
                                ok = False
                if ok:
                    out = fields
        cache[cname] = out
        return out

    def record_component(self, t, i):
        """component i of a record constructed positionally (NamedTuple unpacking / indexing), else None"""
        if t[0] == "call" and t[1][0] == "name" and t[1][1] in self.m.classes:
            fields = self._record_fields(t[1][1])
            ci = self.m.classes.get(t[1][1])
            if fields is not None and getattr(ci, "bases", None) == ["NamedTuple"] and isinstance(i, int) and 0 <= i < len(fields) and len(t[2]) + len(t[3]) == len(fields):
                name = [n_ for n_, k_ in fields.items() if k_ == i][0]
                return self._record_projection(t, name)
        return None

    def _record_projection(self, base, attr):
        """<record constructed from arguments>.<field> is the argument (a private value class that only carries
        a few values from one function to another)."""
        if base[0] == "phi":
            parts = [self._record_projection(a_, attr) for a_ in base[1]]
            if all(p_ is not None for p_ in parts):
                uniq = []
                for p_ in parts:
                    if p_ not in uniq:
                        uniq.append(p_)
                return uniq[0] if len(uniq) == 1 else ("phi", tuple(uniq))
            return None
        if base[0] == "call" and base[1][0] == "name" and base[1][1] in self.m.classes:
            fields = self._record_fields(base[1][1])
            if fields is not None and attr in fields:
                kw = dict(base[3])
                if len(kw) == len(base[3]) and set(kw) <= set(fields):
                    if fields[attr] < len(base[2]) and attr not in kw:
                        return base[2][fields[attr]]
                    if attr in kw and fields[attr] >= len(base[2]):
                        return kw[attr]
        return None

    def term_in_context(self, e):
        """Term of an expression that may sit inside comprehensions: their variables are bound to the
        elements of what they iterate (outermost first)."""
        comps = []
        x = getattr(e, "_parent", None)
        child = e
        while x is not None and x is not self.fn.node:
            if isinstance(x, (ast.GeneratorExp, ast.ListComp, ast.SetComp, ast.DictComp)):
                comps.append((x, child))
            child = x
            x = getattr(x, "_parent", None)
        if not comps:
            return self.term(e)
        ce = {}
        at = self._at(comps[-1][0]) if self.flow else None
        for comp, inner in reversed(comps):
            for g in comp.generators:
                if inner is g.iter or any(inner is y for y in ast.walk(g.iter)):
                    break  # e is (inside) this generator's iterable: later variables are not bound yet
                it = self.term(g.iter, frozenset(), 0, ce, at)
                self._bind_comp(g.target, it[1] if it[0] == "gen" else ("elem", it), ce)
        return self.term(e, frozenset(), 0, ce, at)

    def _local_generator(self, g):
        """A call of a parameterless local generator function with a single `yield <expr>` is the generator
        of that expression: ('gen', term of the yielded expression, ()).  Closure variables are resolved
        in this function."""
        ys = [n for n in ast.walk(g.node) if isinstance(n, (ast.Yield, ast.YieldFrom))]
        if len(ys) != 1 or not isinstance(ys[0], ast.Yield) or ys[0].value is None or g.params:
            return None
        if any(isinstance(n, ast.Return) and n.value is not None for n in ast.walk(g.node)):
            return None
        cache = self.__dict__.setdefault("_gen_cache", {})
        if g.qual not in cache:
            cres = Resolver(self.m, g, flow=True)
            cres._parent_res = self if not self.flow else Resolver(self.m, self.fn, flow=False)
            t = cres.term(ys[0].value)

            def norm(t):
                if not isinstance(t, tuple) or not t:
                    return t
                if t[0] == "outer":
                    return norm(t[1])
                t = tuple(norm(x) if isinstance(x, tuple) else x for x in t)
                if t[0] == "attr" and t[1] == ("self",):
                    return ("field", t[2])
                return t

            cache[g.qual] = ("gen", norm(t), ())
        return cache[g.qual]

    def _bind_comp(self, target, base, ce):
        def rec(t, term):
            if isinstance(t, ast.Name):
                ce[t.id] = term
            elif isinstance(t, (ast.Tuple, ast.List)):
                for i, x in enumerate(t.elts):
                    rec(x, ("sub", term, ("const", i)))

        rec(target, base)

    def _name(self, name, visiting, d, compenv, at=None):
        if compenv and name in compenv:
            return compenv[name]
        is_param = name in self.fn.params
        if name == self.selfname and name not in self.defs:
            return ("self",)
        defs = self.defs.get(name, [])
        if not defs:
            if is_param:
                return ("param", self.fn.params.index(name), name)
            # closure variable of an enclosing function?
            p = self.fn.parent
            if p is not None:
                pr = getattr(self, "_parent_res", None)
                if pr is None:
                    pr = self._parent_res = Resolver(self.m, p, flow=False)
                if name in pr.defs or name in p.params:
                    # (no temporary AST node here: the memo is keyed by node identity)
                    return ("outer", pr._name(name, frozenset(), 0, None, None))
            lit = self._module_literal(name)
            if lit is not None:
                return lit
            imp = self._module_import(name)
            if imp is not None and imp[0] in ("operator", "_operator") and imp[1] in OPERATOR_MODULE:
                return ("opfn", OPERATOR_MODULE[imp[1]])
            return ("name", name)
        reaching = None
        if self.flow and at is not None:
            reaching = {idx for (nm, idx) in self.IN[at] if nm == name}
            reaching |= {idx for (nm, idx) in self.always if nm == name}
        alts = []
        if is_param and (reaching is None or -1 in reaching):
            alts.append(("param", self.fn.params.index(name), name))
        elif name in self.globals_declared and (reaching is None or -1 in reaching):
            alts.append(("name", name))  # a module global written here: what it held on entry
        for idx, (desc, path) in enumerate(defs):
            if reaching is not None and idx not in reaching:
                continue
            if (name, idx) in visiting:
                continue  # a definition that refers to the name sees the *other* definitions
            vis = visiting | {(name, idx)}
            dat = self.def_node.get((name, idx)) if self.flow else None
            kind = desc[0]
            if kind == "val":
                t = self.term(desc[1], vis, d, compenv, dat)
            elif kind == "elem":
                it_ = self.term(desc[1], vis, d, compenv, dat)
                # an element of a generator / comprehension is its element expression
                t = it_[1] if it_[0] == "gen" else ("elem", it_)
            elif kind == "aug":
                st = desc[1]
                t = ("op", "aug" + type(st.op).__name__, (self._name(name, vis, d, compenv, dat), self.term(st.value, vis, d, compenv, dat)))
            elif kind == "def":
                t = ("localdef", desc[1].name)
            elif kind == "exc":
                t = ("exc",)
            elif kind == "import":
                t = ("name", name)
            else:
                t = ("expr", "?")
            for p in path:
                t = self._project(t, p)
            if t not in alts:
                alts.append(t)
        if not alts:
            if is_param:
                return ("param", self.fn.params.index(name), name)
            return ("cyc", name)
        if len(alts) == 1:
            return alts[0]
        return ("phi", tuple(alts))

    def origins(self, e):
        """Leaf definitions the value of expression e can come from, following plain name copies
        (x = y): [(defining statement or None for a parameter / non-name expression, term)]."""
        out = []
        seen = set()
        self.origin_chains = chains = []
        chain = []

        def rec(e, at):
            if not (isinstance(e, ast.Name) and (e.id in self.defs or e.id in self.fn.params)):
                # a global / builtin name copied into a local: the copying statement is the definition site
                out.append((chain[-1] if chain else None, self.term(e, at=at)))
                chains.append(list(chain))
                return
            name = e.id
            defs = self.defs.get(name, [])
            reaching = None
            if self.flow and at is not None:
                reaching = {idx for (nm, idx) in self.IN[at] if nm == name} | {idx for (nm, idx) in self.always if nm == name}
            if name in self.fn.params and (reaching is None or -1 in reaching or not defs):
                out.append((None, ("param", self.fn.params.index(name), name)))
                chains.append(list(chain))
            for idx, (desc, path) in enumerate(defs):
                if (reaching is not None and idx not in reaching) or (name, idx) in seen:
                    continue
                seen.add((name, idx))
                dat = self.def_node.get((name, idx)) if self.flow else None
                st = self.def_stmt.get((name, idx))
                if desc[0] == "val" and not path and isinstance(desc[1], ast.Name):
                    chain.append(st)
                    rec(desc[1], dat)
                    chain.pop()
                    continue
                if desc[0] == "val" and path and isinstance(desc[1], ast.Name) and (desc[1].id in self.defs or desc[1].id in self.fn.params):
                    # `a, b = pair`: the origins of the pair, each projected (the site where the pair was built)
                    n0 = len(out)
                    chain.append(st)
                    rec(desc[1], dat)
                    chain.pop()
                    for k_ in range(n0, len(out)):
                        st_k, t_k = out[k_]
                        for p in path:
                            t_k = self._project(t_k, p)
                        out[k_] = (st_k, t_k)
                    continue
                if desc[0] == "val":
                    t = self.term(desc[1], at=dat)
                    for p in path:
                        t = self._project(t, p)
                elif desc[0] == "elem":
                    t = self.term(desc[1], at=dat)
                    t = t[1] if t[0] == "gen" else ("elem", t)
                    for p in path:
                        t = project(t, p)
                else:
                    t = ("expr", "?")
                out.append((st, t))
                chains.append(list(chain))

        rec(e, self._at(e) if self.flow else None)
        return out

    def copy_sites(self, e):
        """Like origins, but the statements of the *last* plain copy on each chain: for `a = b` reaching e
        returns that assignment with the term of b: [(statement, term)] (parameters: (None, term))."""
        out = []
        if not (isinstance(e, ast.Name) and (e.id in self.defs or e.id in self.fn.params)):
            return [(None, self.term(e))]
        at = self._at(e) if self.flow else None
        name = e.id
        defs = self.defs.get(name, [])
        reaching = None
        if self.flow and at is not None:
            reaching = {idx for (nm, idx) in self.IN[at] if nm == name} | {idx for (nm, idx) in self.always if nm == name}
        if name in self.fn.params and (reaching is None or -1 in reaching or not defs):
            out.append((None, ("param", self.fn.params.index(name), name)))
        for idx, (desc, path) in enumerate(defs):
            if reaching is not None and idx not in reaching:
                continue
            t = self._name_def(name, idx)
            out.append((self.def_stmt.get((name, idx)), t))
        return out

    def _name_def(self, name, idx):
        desc, path = self.defs[name][idx]
        dat = self.def_node.get((name, idx)) if self.flow else None
        if desc[0] == "val":
            t = self.term(desc[1], at=dat)
        elif desc[0] == "elem":
            t = self.term(desc[1], at=dat)
            t = t[1] if t[0] == "gen" else ("elem", t)
        else:
            return ("expr", "?")
        for p in path:
            t = project(t, p)
        return t

    # ------------------------------------------------------------------ callee resolution (for normalisation only)
    def _callee(self, f, ft):
        """The repo function a call resolves to when that is unambiguous, else None."""
        m = self.m
        if isinstance(f, ast.Name):
            if f.id in m.classes:
                return m.lookup(f.id, "__init__")
            g = m.module_funcs.get(self.fn.module, {}).get(f.id)
            if g is not None:
                return g
            cands = [x for x in m.by_name.get(f.id, []) if x.cls is None and x.parent is None]
            return cands[0] if len(cands) == 1 else None
        if isinstance(f, ast.Attribute):
            if self.selfname and isinstance(f.value, ast.Name) and f.value.id == self.selfname and self.fn.cls:
                return m.lookup(self.fn.cls, f.attr)
            if isinstance(f.value, ast.Name) and f.value.id in m.classes:
                return m.lookup(f.value.id, f.attr)
            cands = {id(x): x for x in m.by_name.get(f.attr, []) if x.is_method}
            if len(cands) == 1:
                return next(iter(cands.values()))
            if len(cands) > 1:
                # several classes define it: usable only when they agree on the parameter list
                sigs = {tuple(x.params[1:]) for x in cands.values()}
                if len(sigs) == 1:
                    return next(iter(cands.values()))
        return None

    def _inline(self, callee, f, args, kws, visiting, depth):
        """A call of a helper that did not exist when the rules were written is transparent: the
        helper's return expression with the arguments substituted (phi over several returns)."""
        from .anchors import KNOWN_FUNCTIONS

        if callee.name in KNOWN_FUNCTIONS or (callee.name.startswith("__") and callee.name.endswith("__")) or kws:
            return None
        stack = getattr(self.m, "_inline_stack", None)
        if stack is None:
            stack = self.m._inline_stack = []
        if callee.qual == self.fn.qual or callee.qual in stack or len(stack) > 3:
            return None
        params = list(callee.params)
        same_self = False
        if callee.is_method and not callee.is_staticmethod and params:
            # only helpers on the same object (self.helper(...)) keep the meaning of field terms
            if not (isinstance(f, ast.Attribute) and isinstance(f.value, ast.Name) and f.value.id == self.selfname and not callee.is_classmethod):
                return None
            params = params[1:]
            same_self = True
        if len(args) > len(params):
            return None
        rets = [n for n in own_statements(callee.node) if isinstance(n, ast.Return)]
        if not rets or len(own_statements(callee.node)) > 40:
            return None
        if any(isinstance(x, (ast.For, ast.While, ast.Yield, ast.YieldFrom)) for x in ast.walk(callee.node)):
            return None  # builds its result by iteration/mutation: the return expression alone does not describe it
        cache = getattr(self.m, "_inline_cache", None)
        if cache is None:
            cache = self.m._inline_cache = {}
        if callee.qual not in cache:
            stack.append(callee.qual)
            try:
                cres = Resolver(self.m, callee, flow=True)
                cache[callee.qual] = [cres.term(r.value) if r.value is not None else ("const", None) for r in rets]
            finally:
                stack.pop()
        binding = {("param", callee.params.index(p), p): a for p, a in zip(params, args)}
        alts = []
        for t in cache[callee.qual]:
            t = _subst(t, binding)
            for a in alternatives(t):
                if a not in alts:
                    alts.append(a)
        if not alts:
            return None
        # parameters left unbound (defaults) make the expansion unreliable
        left = {x for a in alts for x in walk(a) if isinstance(x, tuple) and x and x[0] == "param" and x in {("param", callee.params.index(p), p) for p in params[len(args):]}}
        if left:
            return None
        return alts[0] if len(alts) == 1 else ("phi", tuple(alts))

    def _module_import(self, name):
        """(module, original name) when `name` is bound at module level by one `from module import original [as name]`
        and by nothing else."""
        cache = self.m.__dict__.setdefault("_module_imports", {})
        key = (self.fn.path, name)
        if key not in cache:
            out = None
            tree = self.m.trees.get(self.fn.path, (None, None))[0]
            if tree is not None:
                binds = []
                for st in tree.body:
                    if isinstance(st, ast.ImportFrom):
                        binds += [(st.module, al.name) for al in st.names if (al.asname or al.name) == name]
                    elif isinstance(st, ast.Import):
                        binds += [None for al in st.names if (al.asname or al.name).split(".")[0] == name]
                    elif isinstance(st, (ast.FunctionDef, ast.ClassDef)) and st.name == name:
                        binds.append(None)
                    elif any(isinstance(x, ast.Name) and isinstance(x.ctx, ast.Store) and x.id == name for x in ast.walk(st) if not isinstance(st, (ast.FunctionDef, ast.ClassDef))):
                        binds.append(None)
                if len(binds) == 1 and binds[0] is not None and binds[0][0]:
                    out = binds[0]
            cache[key] = out
        return cache[key]

    def _module_alias_path(self, name):
        """Path of the library module that the module-level name `name` denotes (`from pkg import module [as name]`,
        `import pkg.module as name`), or None."""
        cache = self.m.__dict__.setdefault("_module_aliases", {})
        key = (self.fn.path, name)
        if key not in cache:
            import os
            out = None
            tree = self.m.trees.get(self.fn.path, (None, None))[0]
            binds = []
            for st in (tree.body if tree is not None else []):
                if isinstance(st, ast.ImportFrom):
                    for al in st.names:
                        if (al.asname or al.name) == name:
                            if st.level:
                                base = os.path.dirname(self.fn.path)
                                for _ in range(st.level - 1):
                                    base = os.path.dirname(base)
                                binds.append(os.path.join(base, *((st.module or "").split(".") if st.module else []), al.name) + ".py")
                            else:
                                binds.append(os.sep + os.path.join(*(st.module or "").split("."), al.name) + ".py")
                elif isinstance(st, ast.Import):
                    for al in st.names:
                        if al.asname == name:
                            binds.append(os.sep + os.path.join(*al.name.split(".")) + ".py")
                        elif al.asname is None and al.name.split(".")[0] == name:
                            binds.append(None)
                elif isinstance(st, (ast.FunctionDef, ast.ClassDef)) and st.name == name:
                    binds.append(None)
                elif not isinstance(st, (ast.FunctionDef, ast.ClassDef)) and any(isinstance(x, ast.Name) and isinstance(x.ctx, ast.Store) and x.id == name for x in ast.walk(st)):
                    binds.append(None)
            if len(binds) == 1 and binds[0] is not None:
                b = binds[0]
                cands = [p_ for p_ in self.m.trees if p_ == b or (b.startswith(os.sep) and p_.endswith(b))]
                if len(cands) == 1:
                    out = cands[0]
            cache[key] = out
        return cache[key]

    def _module_literal(self, name, path=None, _hops=0):
        """A module-level constant bound once to a literal (number, string, tuple/list of such, constant
        table), in this module or imported by name from another module of the repository."""
        cache = getattr(self.m, "_module_literals", None)
        if cache is None:
            cache = self.m._module_literals = {}
        path = path or self.fn.path
        key = (path, name)
        if key in cache:
            return cache[key]
        out = None
        tree = self.m.trees.get(path, (None, None))[0]
        if tree is not None and not path.endswith("posc.py") and _hops < 3:
            imps = [(st, al) for st in tree.body if isinstance(st, ast.ImportFrom) for al in st.names if (al.asname or al.name) == name]
            if len(imps) == 1 and not any(isinstance(x, ast.Name) and isinstance(x.ctx, ast.Store) and x.id == name for st in tree.body if not isinstance(st, (ast.FunctionDef, ast.ClassDef)) for x in ast.walk(st)):
                st, al = imps[0]
                import os
                base = os.path.dirname(path)
                for _ in range(max(st.level - 1, 0)):
                    base = os.path.dirname(base)
                if st.level >= 1 and st.module:
                    cand = os.path.join(base, *st.module.split(".")) + ".py"
                    if cand in self.m.trees:
                        out = self._module_literal(al.name, cand, _hops + 1)
                elif st.level == 0 and st.module:
                    tail = os.path.join(*st.module.split(".")) + ".py"
                    cands = [p_ for p_ in self.m.trees if p_.endswith(os.sep + tail) or p_ == tail]
                    if len(cands) == 1:
                        out = self._module_literal(al.name, cands[0], _hops + 1)
                cache[key] = out
                return out
        if out is None and tree is not None and not path.endswith("posc.py"):
            fdefs = [st for st in tree.body if isinstance(st, ast.FunctionDef) and st.name == name]
            if len(fdefs) == 1 and not fdefs[0].decorator_list and not any(isinstance(x, ast.Name) and isinstance(x.ctx, ast.Store) and x.id == name for st in tree.body if not isinstance(st, (ast.FunctionDef, ast.ClassDef)) for x in ast.walk(st)):
                # def DoAdd(a, b): return a + b   -- a named binary operator
                from .facts import _def_op
                from .dispatch import OPFN
                lo = _def_op(fdefs[0])
                if lo is not None:
                    nm = [k for k, v in OPFN.items() if v is lo[0]]
                    if nm:
                        out = ("opfn-swapped" if lo[1] else "opfn", nm[0])
        if out is None and tree is not None and not path.endswith("posc.py"):
            defs = [st for st in tree.body if isinstance(st, (ast.Assign, ast.AnnAssign)) and any(isinstance(t, ast.Name) and t.id == name for t in (st.targets if isinstance(st, ast.Assign) else [st.target]))]
            if len(defs) == 1 and defs[0].value is not None:
                v = defs[0].value

                def lit(e):
                    if isinstance(e, ast.Constant):
                        return ("const", e.value)
                    if isinstance(e, (ast.Tuple, ast.List)) and all(isinstance(x, ast.Constant) for x in e.elts):
                        return ("tuple" if isinstance(e, ast.Tuple) else "list", tuple(("const", x.value) for x in e.elts))
                    if isinstance(e, ast.Lambda):
                        from .dispatch import lambda_op
                        lo = lambda_op(e)
                        if lo is not None:
                            return ("opfn" if not lo[1] else "opfn-swapped", lo[0].__name__)  # lambda a, b: a OP b
                    if isinstance(e, ast.Name):
                        imp = self._module_import(e.id)
                        if imp is not None and imp[0] in ("operator", "_operator") and imp[1] in OPERATOR_MODULE:
                            return ("opfn", OPERATOR_MODULE[imp[1]])
                    if isinstance(e, ast.Attribute) and isinstance(e.value, ast.Name) and e.value.id in ("operator", "_operator") and e.attr in OPERATOR_MODULE:
                        return ("opfn", OPERATOR_MODULE[e.attr])
                    return None

                out = lit(v)
                if out is None and isinstance(v, ast.Dict) and v.keys and all(isinstance(k, ast.Constant) for k in v.keys) and not self._module_mutates(tree, name):
                    # a constant table: {'>': gt, ...} / {'>': 'greater than', ...}
                    items = tuple((("const", k.value), lit(x)) for k, x in zip(v.keys, v.values))
                    if all(x is not None for _, x in items) and len({k for k, _ in items}) == len(items):
                        out = ("dict", items)
        cache[key] = out
        return out

    @staticmethod
    def _module_mutates(tree, name):
        """Does any code of the module store into / call a method of / rebind the module-level table `name`?"""
        for n in ast.walk(tree):
            if isinstance(n, ast.Subscript) and isinstance(n.ctx, (ast.Store, ast.Del)) and isinstance(n.value, ast.Name) and n.value.id == name:
                return True
            if isinstance(n, ast.Call) and isinstance(n.func, ast.Attribute) and isinstance(n.func.value, ast.Name) and n.func.value.id == name and n.func.attr not in ("get", "keys", "values", "items", "copy"):
                return True
            if isinstance(n, ast.Global) and name in n.names:
                return True
        return False

    # ------------------------------------------------------------------ fields
    def field_stores(self, attr, cls=None):
        """[(Func, value expr)] of every `self.<attr> = value` in the class family."""
        cls = cls or self.fn.cls
        return field_stores(self.m, cls, attr)


def field_stores(model, cls, attr):
    out = []
    seen = set()
    for c in sorted(model.family(cls)):
        for fn in model.funcs.values():
            if fn.cls != c or fn.qual in seen:
                continue
            seen.add(fn.qual)
            for n in ast.walk(fn.node):
                targets = []
                if isinstance(n, ast.Assign):
                    targets = [(t, n.value) for t in n.targets]
                elif isinstance(n, ast.AnnAssign) and n.value is not None:
                    targets = [(n.target, n.value)]
                elif isinstance(n, ast.AugAssign):
                    targets = [(n.target, n.value)]
                for t, v in targets:
                    for x in ([t] if not isinstance(t, (ast.Tuple, ast.List)) else t.elts):
                        if isinstance(x, ast.Attribute) and x.attr == attr and isinstance(x.value, ast.Name) and fn.params and x.value.id == fn.params[0]:
                            out.append((fn, v, n))
    return out


def project(t, p):
    """Component p (tuple index or '*') of term t; distributes over alternatives."""
    if p == "*":
        return ("op", "starrest", (t,))
    if t[0] == "phi":
        alts = []
        for a in t[1]:
            x = project(a, p)
            if x not in alts:
                alts.append(x)
        return alts[0] if len(alts) == 1 else ("phi", tuple(alts))
    if t[0] in ("tuple", "list") and isinstance(p, int) and p < len(t[1]):
        return t[1][p]
    return ("sub", t, ("const", p))


def _positional(callee, args, kws, bound=True):
    """Fold keyword arguments into positional ones following the callee's parameter order (as long
    as every earlier parameter is given)."""
    params = list(callee.params)
    if callee.is_method and not callee.is_staticmethod and bound and params:
        params = params[1:]
    args = list(args)
    kw = dict(kws)
    if len(kw) != len(kws):
        return args, kws
    i = len(args)
    while i < len(params) and params[i] in kw:
        args.append(kw.pop(params[i]))
        i += 1
    return args, [(k, v) for k, v in kws if k in kw]


def _subst(t, binding):
    if not isinstance(t, tuple) or not t:
        return t
    if t in binding:
        return binding[t]
    h = t[0]
    if h in ("const", "param", "self", "field", "name", "lambda", "cyc", "expr", "localdef", "exc", "deep"):
        return t
    if h in ("attr",):
        return (h, _subst(t[1], binding), t[2])
    if h in ("elem", "outer"):
        return (h, _subst(t[1], binding))
    if h == "call":
        return (h, _subst(t[1], binding), tuple(_subst(a, binding) for a in t[2]), tuple((k, _subst(v, binding)) for k, v in t[3]))
    if h == "sub":
        return (h, _subst(t[1], binding), _subst(t[2], binding))
    if h in ("tuple", "list", "phi"):
        return (h, tuple(_subst(a, binding) for a in t[1]))
    if h == "op":
        return (h, t[1], tuple(_subst(a, binding) for a in t[2]))
    if h == "gen":
        return (h, _subst(t[1], binding), tuple(_subst(a, binding) for a in t[2]))
    return t


# ---------------------------------------------------------------------- term utilities
def children(t):
    if not isinstance(t, tuple) or not t:
        return []
    h = t[0]
    if h in ("attr", "elem", "outer"):
        return [t[1]]
    if h == "call":
        return [t[1]] + list(t[2]) + [v for _, v in t[3]]
    if h == "sub":
        return [t[1], t[2]]
    if h in ("tuple", "list", "phi"):
        return list(t[1])
    if h == "op":
        return list(t[2])
    if h == "gen":
        return [t[1]] + list(t[2])
    return []


def walk(t):
    """All sub-terms (pre-order)."""
    todo = [t]
    while todo:
        x = todo.pop()
        yield x
        todo.extend(reversed(children(x)))


def alternatives(t):
    """Flatten phi nodes at the top."""
    if isinstance(t, tuple) and t and t[0] == "phi":
        out = []
        for a in t[1]:
            out += alternatives(a)
        return out
    return [t]


def mentions(t, pred):
    return any(pred(s) for s in walk(t))


def params_in(t):
    return {s[1] for s in walk(t) if isinstance(s, tuple) and s and s[0] == "param"}


def fields_in(t):
    return {s[1] for s in walk(t) if isinstance(s, tuple) and s and s[0] == "field"}


def show(t, maxlen=200):
    def r(t):
        if not isinstance(t, tuple) or not t:
            return repr(t)
        h = t[0]
        if h == "const":
            return repr(t[1])
        if h == "param":
            return "$" + t[2]
        if h == "self":
            return "self"
        if h == "field":
            return "self." + t[1]
        if h == "name":
            return t[1]
        if h == "attr":
            return r(t[1]) + "." + t[2]
        if h == "call":
            return "%s(%s)" % (r(t[1]), ", ".join([r(a) for a in t[2]] + ["%s=%s" % (k, r(v)) for k, v in t[3]]))
        if h == "sub":
            return "%s[%s]" % (r(t[1]), r(t[2]))
        if h == "elem":
            return "elem(%s)" % r(t[1])
        if h in ("tuple", "list"):
            return "(%s)" % ", ".join(r(x) for x in t[1])
        if h == "op":
            return "%s(%s)" % (t[1], ", ".join(r(x) for x in t[2]))
        if h == "phi":
            return "phi{%s}" % " | ".join(r(x) for x in t[1])
        if h == "gen":
            return "gen(%s for %s)" % (r(t[1]), ", ".join(r(x) for x in t[2]))
        if h == "outer":
            return "outer:" + r(t[1])
        return "%s:%s" % (h, t[1] if len(t) > 1 else "")

    s = r(t)
    return s if len(s) <= maxlen else s[: maxlen - 3] + "..."


# ---------------------------------------------------------------------- canonical accessor spelling
def _accessor_maps(model):
    cache = getattr(model, "_accessor_maps", None)
    if cache is not None:
        return cache
    props = {}
    aliases = {}
    for ci in model.classes.values():
        for p, (g, _s) in ci.properties.items():
            if g is not None:
                props.setdefault(p, set()).add(g.name)
        for a, o in ci.aliases.items():
            if o in ci.methods or model.lookup(ci.name, o) is not None:
                aliases.setdefault(a, set()).add(o)
    props = {p: next(iter(v)) for p, v in props.items() if len(v) == 1}
    aliases = {a: next(iter(v)) for a, v in aliases.items() if len(v) == 1}
    # an alias of an alias / a property whose getter is itself an alias
    props = {p: aliases.get(g, g) for p, g in props.items()}
    model._accessor_maps = (props, aliases)
    return model._accessor_maps


def canon(model, t):
    """Rewrite property reads and method aliases to one spelling: `x.unit` -> `x.GetUnit()`,
    `x.value` / `x.GetValue(..)` -> `x.GetAbstractValue(..)`, so that equivalent accessors compare equal."""
    props, aliases = _accessor_maps(model)

    def r(t):
        if not isinstance(t, tuple) or not t:
            return t
        h = t[0]
        if h == "field":
            if t[1] in props:
                return ("call", ("field", props[t[1]]), (), ())
            return ("field", aliases.get(t[1], t[1]))
        if h == "attr":
            b = r(t[1])
            if t[2] in props:
                return ("call", ("attr", b, props[t[2]]), (), ())
            return ("attr", b, aliases.get(t[2], t[2]))
        if h in ("elem", "outer"):
            return (h, r(t[1]))
        if h == "call":
            return (h, r(t[1]), tuple(r(a) for a in t[2]), tuple((k, r(v)) for k, v in t[3]))
        if h == "sub":
            return (h, r(t[1]), r(t[2]))
        if h in ("tuple", "list", "phi"):
            return (h, tuple(r(a) for a in t[1]))
        if h == "op":
            return (h, t[1], tuple(r(a) for a in t[2]))
        if h == "gen":
            return (h, r(t[1]), tuple(r(a) for a in t[2]))
        return t

    return r(t)
