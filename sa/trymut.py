"""Developer tool: evaluate a property on an in-memory mutant.
usage: python -m sa.trymut C16 <relpath> <old text> <new text> [<relpath> <old> <new> ...]"""
import sys

from .main import evaluate
from .srcmodel import repo_root
import os


def run(prop, edits, quiet=False):
    overlay = {}
    for rel, old, new in edits:
        src = overlay.get(rel)
        if src is None:
            with open(os.path.join(repo_root(), rel)) as f:
                src = f.read()
        if src.count(old) != 1:
            raise SystemExit("edit anchor occurs %d times in %s: %r" % (src.count(old), rel, old[:60]))
        overlay[rel] = src.replace(old, new)
    rep, mod = evaluate(prop, overlay=overlay)
    bad = [o for o in rep.obligations if o.status == "violated"]
    if not quiet:
        for o in bad:
            print("VIOL %s %s :: %s  (%s:%s)" % (o.rule, o.key, o.what, o.file, o.line))
        for r, msg in rep.errors:
            print("ERR %s %s" % (r, msg[:300]))
        print("%d obligations, %d violated, %d errors" % (len(rep.obligations), len(bad), len(rep.errors)))
    return rep, bad


if __name__ == "__main__":
    a = sys.argv[1:]
    prop = a[0]
    edits = [(a[i], a[i + 1], a[i + 2]) for i in range(1, len(a), 3)]
    run(prop, edits)
