"""Light receiver typing for call resolution (A1): which repo classes can an expression denote?

Sources of type facts, all syntactic: parameter and return annotations (the repo is fully
annotated), constructor calls, `C.GetSingleton()` -> C, class-level annotations, and `self.f = p`
stores whose right-hand side has a known class.  Returns None when nothing is known (the caller
then falls back to class-hierarchy analysis by method name).
"""
import ast


def _ann_classes(model, ann, fn=None):
    """Repo classes named by an annotation (Optional/Union/quotes/TypeVar bound stripped)."""
    if ann is None:
        return None
    if isinstance(ann, ast.Constant) and isinstance(ann.value, str):
        try:
            ann = ast.parse(ann.value, mode="eval").body
        except SyntaxError:
            return None
    if isinstance(ann, ast.Name):
        if ann.id in model.classes:
            return {ann.id}
        # TypeVars bound to a class: T = TypeVar("T", bound="X"); SelfT
        b = model.typevars.get(ann.id)
        if b:
            return {b}
        return None
    if isinstance(ann, ast.Attribute):
        return {ann.attr} if ann.attr in model.classes else None
    if isinstance(ann, ast.Subscript):
        head = ast.unparse(ann.value).split(".")[-1]
        if head in ("Optional", "Union"):
            els = ann.slice.elts if isinstance(ann.slice, ast.Tuple) else [ann.slice]
            out = set()
            for e in els:
                c = _ann_classes(model, e, fn)
                if c:
                    out |= c
            return out or None
        if head in ("Type",):
            return None
        if head in model.classes:
            return {head}
        return None
    if isinstance(ann, ast.BinOp) and isinstance(ann.op, ast.BitOr):
        a = _ann_classes(model, ann.left, fn) or set()
        b = _ann_classes(model, ann.right, fn) or set()
        return (a | b) or None
    return None


class TypeInfer:
    def __init__(self, model):
        self.m = model
        if not hasattr(model, "typevars"):
            model.typevars = self._typevars()
        self._field = None
        self._busy = set()

    def _typevars(self):
        out = {}
        for rel, (tree, _) in self.m.trees.items():
            if rel.endswith("posc.py"):
                continue
            for st in tree.body:
                if isinstance(st, ast.Assign) and isinstance(st.value, ast.Call) and isinstance(st.value.func, ast.Name) and st.value.func.id == "TypeVar":
                    for k in st.value.keywords:
                        if k.arg == "bound":
                            b = k.value
                            name = b.value if isinstance(b, ast.Constant) else (b.id if isinstance(b, ast.Name) else None)
                            if name in self.m.classes and isinstance(st.targets[0], ast.Name):
                                out[st.targets[0].id] = name
        return out

    # ------------------------------------------------------------------ fields
    def field_classes(self, cls, attr):
        """Classes a field `self.<attr>` of class `cls` (family) can hold, or None."""
        if self._field is None:
            self._field = {}
        key = (cls, attr)
        if key in self._field:
            return self._field[key]
        self._field[key] = None  # cycle guard
        out = set()
        unknown = False
        for c in self.m.mro(cls):
            ann = self.m.classes[c].annotations.get(attr)
            if ann is not None:
                a = _ann_classes(self.m, ann)
                if a:
                    out |= a
        from .terms import field_stores

        for fn, value, st in field_stores(self.m, cls, attr):
            a = self.expr_classes(value, fn)
            if a:
                out |= a
            elif not (isinstance(value, ast.Constant) and value.value is None):
                unknown = True
        res = out if (out and not unknown) else (out or None)
        self._field[key] = res
        return res

    # ------------------------------------------------------------------ expressions
    def expr_classes(self, e, fn, depth=0):
        m = self.m
        if depth > 6 or e is None:
            return None
        if isinstance(e, ast.Name):
            if e.id in ("self",) and fn.cls and fn.is_method:
                return {fn.cls}
            if e.id == "cls" and fn.cls:
                return None
            ann = fn.param_annotation(e.id)
            if ann is not None:
                return _ann_classes(m, ann, fn)
            # single local definition
            defs = []
            for n in ast.walk(fn.node):
                if isinstance(n, ast.Assign) and getattr(n, "_annotation", None) is not None and len(n.targets) == 1 and isinstance(n.targets[0], ast.Name) and n.targets[0].id == e.id:
                    # an annotated assignment normalised by sa/flatten.desugar
                    a = _ann_classes(m, n._annotation, fn)
                    if a:
                        return a
                    defs.append(n.value)
                elif isinstance(n, ast.Assign):
                    for t in n.targets:
                        if isinstance(t, ast.Name) and t.id == e.id:
                            defs.append(n.value)
                        elif isinstance(t, (ast.Tuple, ast.List)) and any(isinstance(x, ast.Name) and x.id == e.id for x in t.elts):
                            defs.append(None)
                elif isinstance(n, ast.AnnAssign) and isinstance(n.target, ast.Name) and n.target.id == e.id:
                    a = _ann_classes(m, n.annotation, fn)
                    if a:
                        return a
                    defs.append(n.value)
                elif isinstance(n, (ast.For, ast.comprehension)) and any(isinstance(x, ast.Name) and x.id == e.id for x in ast.walk(n.target)):
                    defs.append(None)
            if defs and all(d is not None for d in defs):
                out = set()
                for d in defs:
                    if (id(d), e.id) in self._busy:
                        return None
                    self._busy.add((id(d), e.id))
                    try:
                        a = self.expr_classes(d, fn, depth + 1)
                    finally:
                        self._busy.discard((id(d), e.id))
                    if not a:
                        return None
                    out |= a
                return out
            if fn.parent is not None and e.id in fn.parent.params:
                return _ann_classes(m, fn.parent.param_annotation(e.id), fn.parent)
            return None
        if isinstance(e, ast.Attribute):
            if isinstance(e.value, ast.Name) and e.value.id == "self" and fn.cls and fn.is_method:
                prop = m.lookup_property(fn.cls, e.attr)
                if prop and prop[0] is not None:
                    return _ann_classes(m, prop[0].node.returns, prop[0])
                return self.field_classes(fn.cls, e.attr)
            base = self.expr_classes(e.value, fn, depth + 1)
            if base:
                out = set()
                for c in base:
                    prop = m.lookup_property(c, e.attr)
                    if prop and prop[0] is not None:
                        a = _ann_classes(m, prop[0].node.returns, prop[0])
                    else:
                        a = self.field_classes(c, e.attr)
                    if not a:
                        return None
                    out |= a
                return out
            return None
        if isinstance(e, ast.Call):
            f = e.func
            if isinstance(f, ast.Name):
                if f.id in m.classes:
                    return {f.id}
                if f.id == "cast" and len(e.args) == 2:
                    return _ann_classes(m, e.args[0], fn) or self.expr_classes(e.args[1], fn, depth + 1)
                cands = [g for g in m.by_name.get(f.id, []) if g.cls is None and g.parent is None]
                if len(cands) == 1:
                    return _ann_classes(m, cands[0].node.returns, cands[0])
                return None
            if isinstance(f, ast.Attribute):
                if f.attr == "GetSingleton" and isinstance(f.value, ast.Name) and f.value.id in m.classes:
                    return {f.value.id}
                if isinstance(f.value, ast.Name) and f.value.id in m.classes:
                    g = m.lookup(f.value.id, f.attr)
                    if g is not None:
                        a = _ann_classes(m, g.node.returns, g)
                        if a and g.is_classmethod and f.value.id in m.subclasses(next(iter(a))):
                            return {f.value.id}
                        return a
                    return None
                recv = self.expr_classes(f.value, fn, depth + 1)
                if isinstance(f.value, ast.Name) and f.value.id in ("cls",) and fn.cls:
                    recv = {fn.cls}
                if isinstance(f.value, ast.Attribute) and f.value.attr == "__class__":
                    recv = self.expr_classes(f.value.value, fn, depth + 1)
                if recv:
                    out = set()
                    for c in recv:
                        g = m.lookup(c, f.attr)
                        if g is None:
                            return None
                        a = _ann_classes(m, g.node.returns, g)
                        if not a:
                            return None
                        # TypeVar-bound returns (self-type): keep the receiver class
                        if isinstance(g.node.returns, ast.Name) and g.node.returns.id in m.typevars:
                            a = {c}
                        out |= a
                    return out
            return None
        if isinstance(e, ast.IfExp):
            a = self.expr_classes(e.body, fn, depth + 1)
            b = self.expr_classes(e.orelse, fn, depth + 1)
            return (a | b) if (a and b) else None
        if isinstance(e, ast.BoolOp):
            out = set()
            for v in e.values:
                a = self.expr_classes(v, fn, depth + 1)
                if not a:
                    return None
                out |= a
            return out
        return None
