"""A9 the unit-symbol grammar of the table:

    symbol  := ['1' '/'] factors ['/' factors]
    factors := factor ('.' factor)*
    factor  := [number] unit [integer]

`unit` is a registered symbol.  A token that is itself registered is preferred over
unit+exponent (except for the row being decomposed).  Symbols with two or more slashes, '^', '*'
or parentheses are outside the grammar and not decomposed.
"""
import re
from fractions import Fraction

NUMPREFIX = re.compile(r"^(\d+(?:\.\d+)?(?:[eE]\d+)?)(\D.*)$")
UNITEXP = re.compile(r"^(.*?)(\d+)$")


def in_grammar(sym):
    return sym.count("/") <= 1 and not any(ch in sym for ch in "^*()")


def _alts(tok, own, registered):
    out = []
    if tok in registered and tok != own:
        out.append((tok, 1))
    m = UNITEXP.match(tok)
    if m and m.group(1) in registered and m.group(1) != own:
        e = int(m.group(2))
        if 1 <= e <= 9:
            out.append((m.group(1), e))
    return out


def decompose(sym, registered):
    """Returns a list of (unit, exponent, numeric prefix as Fraction) or None when the symbol is
    not a product/quotient/power of *other* registered units."""
    if not in_grammar(sym):
        return None
    parts = sym.split("/")
    res = []
    for i, part in enumerate(parts):
        sign = 1 if i == 0 else -1
        toks = part.split(".")
        # decimal points inside a numeric prefix are not separators in this table (none occur)
        for tok in toks:
            if tok == "":
                return None
            if i == 0 and tok == "1" and len(toks) == 1 and len(parts) == 2:
                continue
            pref = Fraction(1)
            a = _alts(tok, sym, registered)
            if not a:
                m = NUMPREFIX.match(tok)
                if m:
                    a = _alts(m.group(2), sym, registered)
                    try:
                        pref = Fraction(m.group(1))
                    except ValueError:
                        return None
            if not a:
                return None
            u, e = a[0]
            res.append((u, sign * e, pref))
    if len(res) == 1 and res[0][1] == 1 and res[0][2] == 1:
        return None
    if not res:
        return None
    return res


# SI prefixes: symbol -> (name, power of ten)
SI_PREFIXES = {
    "Y": ("yotta", 24), "Z": ("zetta", 21), "E": ("exa", 18), "P": ("peta", 15), "T": ("tera", 12),
    "G": ("giga", 9), "M": ("mega", 6), "k": ("kilo", 3), "h": ("hecto", 2), "da": ("deca", 1),
    "d": ("deci", -1), "c": ("centi", -2), "m": ("milli", -3), "u": ("micro", -6), "n": ("nano", -9),
    "p": ("pico", -12), "f": ("femto", -15), "a": ("atto", -18),
}
# spelling variants seen in unit names
PREFIX_NAME_VARIANTS = {"deca": ("deca", "deka"), "milli": ("milli", "mili"), "micro": ("micro",)}

# dimension vectors of SI derived atoms over kg m s A K mol cd (hand-written, trusted)
SI_ATOMS = {
    "N": {"kg": 1, "m": 1, "s": -2}, "Pa": {"kg": 1, "m": -1, "s": -2}, "J": {"kg": 1, "m": 2, "s": -2},
    "W": {"kg": 1, "m": 2, "s": -3}, "C": {"A": 1, "s": 1}, "V": {"kg": 1, "m": 2, "s": -3, "A": -1},
    "F": {"kg": -1, "m": -2, "s": 4, "A": 2}, "ohm": {"kg": 1, "m": 2, "s": -3, "A": -2},
    "S": {"kg": -1, "m": -2, "s": 3, "A": 2}, "Wb": {"kg": 1, "m": 2, "s": -2, "A": -1},
    "T": {"kg": 1, "s": -2, "A": -1}, "H": {"kg": 1, "m": 2, "s": -2, "A": -2}, "Hz": {"s": -1},
    "Bq": {"s": -1}, "Gy": {"m": 2, "s": -2}, "Sv": {"m": 2, "s": -2}, "lm": {"cd": 1},
    "lx": {"cd": 1, "m": -2}, "rad": {}, "sr": {}, "Euc": {}, "-": {}, "degC": {"K": 1},
    "m2": {"m": 2}, "m3": {"m": 3}, "m4": {"m": 4},
}
BASE_ATOMS = ("kg", "m", "s", "A", "K", "mol", "cd")
