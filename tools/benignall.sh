#!/bin/sh
# process delivered benign refactors under /tmp/benign/*/out that are not yet kept; or re-run kept ones with "re"
if [ "$1" = "re" ]; then
  for d in /verif/benign/${2:-}*/; do n=$(basename $d); python3 /verif/tools/benigncheck.py $n $d/patch.diff $d/notes.txt --keep 2>&1 | grep -v conda.cli | cut -c1-300; done
  exit 0
fi
for d in ${BENIGN_SRC:-/tmp/benign}/*/out; do
  g=$(basename $(dirname $d))
  for k in 1 2 3 4; do
    [ -f $d/refactor$k.diff ] || continue
    [ -d /verif/benign/${BENIGN_PREFIX:-}$g-$k ] && continue
    python3 /verif/tools/benigncheck.py ${BENIGN_PREFIX:-}$g-$k $d/refactor$k.diff $d/notes$k.txt --keep 2>&1 | grep -v conda.cli | cut -c1-300
  done
done
