#!/usr/bin/env python3
"""Run the checks against a behaviour-preserving refactor: every check must stay silent (exit 0);
exit 2 (idiom no longer recognised) is tolerated and recorded; exit 1 is a false alarm.

usage: benigncheck.py NAME PATCH [NOTES] [--keep]
Scratch worktree of /repo HEAD under /tmp/sv/NAME (removed afterwards); the patch must apply and the
pinned test suite must pass (322) with it; then every claimed check runs with VERIF_REPO=<worktree>.
With --keep: /verif/benign/NAME/{patch.diff, notes.txt, meta.json}.
"""
import concurrent.futures, json, os, shutil, subprocess, sys, tempfile

sys.path.insert(0, os.path.dirname(os.path.abspath(__file__)))
from seedcheck import sh, run_check, VERIF


def main():
    a = [x for x in sys.argv[1:] if not x.startswith("--")]
    keep = "--keep" in sys.argv
    name, patch = a[0], os.path.abspath(a[1])
    notes = os.path.abspath(a[2]) if len(a) > 2 else None
    wt = "/tmp/sv/" + name
    os.makedirs("/tmp/sv", exist_ok=True)
    sh("git -C /repo worktree remove --force %s" % wt)
    for _try in range(20):
        rc, out = sh("git -C /repo worktree add --detach %s HEAD" % wt)
        if not rc:
            break
        __import__("time").sleep(0.5)
        sh("git -C /repo worktree remove --force %s" % wt)
    if rc:
        print("cannot create worktree:", out)
        return 2
    meta = {"name": name, "repo_head": sh("git -C /repo rev-parse --short HEAD")[1].strip(), "kind": "behaviour-preserving refactor"}
    try:
        rc, out = sh("git apply %s" % patch, cwd=wt)
        if rc:
            print("REJECT %s: patch does not apply: %s" % (name, out[-300:]))
            return 1
        env = dict(os.environ, PYTHONPATH=wt + "/src")
        rc, out = sh("/venv/bin/python -m pytest -q -p no:cacheprovider --timeout=900 2>&1 | tail -3", cwd=wt, env=env)
        meta["tests_with_patch"] = out.strip().splitlines()[-1] if out.strip() else ""
        if "322 passed" not in out or "failed" in out:
            print("REJECT %s: test suite does not pass with the patch: %s" % (name, out[-300:]))
            return 1
        sh("find %s -name __pycache__ -prune -exec rm -rf {} +" % wt)
        man = json.load(open(os.path.join(VERIF, "MANIFEST.json")))
        pids = [c["property_id"] for c in man["checks"]]
        evdir = tempfile.mkdtemp(prefix="sv-ev-")
        with concurrent.futures.ThreadPoolExecutor(max_workers=16) as ex:
            results = list(ex.map(run_check, [(p, wt, evdir) for p in pids]))
        shutil.rmtree(evdir, ignore_errors=True)
        alarms = {p: [l for l in v if not l.startswith("VIOLATION")][:4] for p, rc, v in results if rc == 1}
        errors = {p: v[:2] for p, rc, v in results if rc == 2}
        meta["false_alarms"] = alarms
        meta["analysis_errors"] = errors
        verdict = "FALSE ALARM in %s" % ",".join(sorted(alarms)) if alarms else ("analysis-error in %s" % ",".join(sorted(errors)) if errors else "silent")
        print("%s: %s" % (name, verdict))
        for p, v in list(alarms.items()) + list(errors.items()):
            for l in v[:3]:
                print("    ", l[:300])
        if keep:
            d = os.path.join(VERIF, "benign", name)
            os.makedirs(d, exist_ok=True)
            if os.path.abspath(patch) != os.path.join(d, "patch.diff"):
                shutil.copy(patch, os.path.join(d, "patch.diff"))
            if notes and os.path.exists(notes) and os.path.abspath(notes) != os.path.join(d, "notes.txt"):
                shutil.copy(notes, os.path.join(d, "notes.txt"))
            meta["what_was_run"] = "scratch worktree of /repo HEAD: `git apply patch.diff`; pinned pytest command -> 322 passed; every claimed check with VERIF_REPO=<patched worktree>"
            json.dump(meta, open(os.path.join(d, "meta.json"), "w"), indent=1, sort_keys=True)
        return 0
    finally:
        sh("git -C /repo worktree remove --force %s" % wt)
        shutil.rmtree(wt, ignore_errors=True)


if __name__ == "__main__":
    sys.exit(main())
