"""What MANIFEST.json claims, per property (edited by hand; tools/gen_manifest.py renders it)."""

STATIC = "static analysis of /repo's current source (ast; nothing imported or executed)"
NOTE = ("Decides the structural clauses listed in the evidence (necessary conditions of the property), not the runtime "
        "behaviour; trusted: CPython ast, the sa/ engine, Python semantics of the analysed constructs; assumes asserts "
        "enabled, no monkey-patching, external callers do not mutate shared containers.")

CHECKS = {
    "C01": {
        "technique": "constant-propagating interpretation of the table fillers + exact rational-function algebra over formula syntax; "
                     "route normal forms and dominance of the same-unit shortcut on CFGs",
        "level": "Exhaustive static decision over every AddUnit row of every shipped filler (1363 rows today): the two conversion "
                 "functions of a row are exact inverses in Q(x), affine, total and strictly increasing; the factory pair is inverse "
                 "symbolically; base units are identities; every conversion route composes frombase(target) o tobase(source) with "
                 "the right roles behind the same-unit shortcut. This reaches all 1548 units and ~35k pairs at once, which the "
                 "suite (305 symbols, literal spot values) cannot; float rounding is bounded only syntactically (homogeneous rows).",
        "note": NOTE,
    },
}

NOT_APPLICABLE = {
    **{"C%02d" % i: "check not built yet in this round (static rules designed in DESIGN.md §5; under construction)" for i in range(2, 21)},
}

NOTES = ("All checks are `./check <id> --tier quick|thorough` (python, stdlib only). Exit 0 = all obligations discharged or listed in "
         "known_findings.json (printed as KNOWN-FINDING lines); exit 1 = VIOLATION lines with replay files under evidence/violations/; "
         "exit 2 = ANALYSIS-ERROR (the rule could not be evaluated on this tree: never a silent pass, never reported as a violation). "
         "VERIF_REPO overrides the analysed tree (default /repo).")
