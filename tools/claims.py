"""What MANIFEST.json claims, per property (edited by hand; tools/gen_manifest.py renders it)."""

STATIC = "static analysis of /repo's current source (ast; nothing imported or executed)"
NOTE = ("Decides the structural clauses listed in the evidence (necessary conditions of the property), not the runtime "
        "behaviour; trusted: CPython ast, the sa/ engine, Python semantics of the analysed constructs; assumes asserts "
        "enabled, no monkey-patching, external callers do not mutate shared containers.")

CHECKS = {
    "C01": {
        "technique": "constant-propagating interpretation of the table fillers + exact rational-function algebra over formula syntax; "
                     "route normal forms and dominance of the same-unit shortcut on CFGs",
        "level": "Exhaustive static decision over every AddUnit row of every shipped filler (1363 rows today): the two conversion "
                 "functions of a row are exact inverses in Q(x), affine, total and strictly increasing; the factory pair is inverse "
                 "symbolically; base units are identities; every conversion route composes frombase(target) o tobase(source) with "
                 "the right roles behind the same-unit shortcut. This reaches all 1548 units and ~35k pairs at once, which the "
                 "suite (305 symbols, literal spot values) cannot; float rounding is bounded only syntactically (homogeneous rows).",
        "note": NOTE,
    },
    "C02": {
        "technique": "route normal forms over def-use terms (roles of source unit, target unit and value; lookup flags; exhaustive classification "
                     "of returns); CFG dominance of the own-unit shortcut; backward slices of the quantity/category handed to re-expression constructors",
        "level": "Every conversion route and every delegation site is enumerated: all routes compose frombase(target) o tobase(source) with the "
                 "same lookup and un-swapped roles, container kind preserved, exponent route shaped root-convert-power; every higher route hands "
                 "own unit / requested unit / value in the right roles (including the category default converted from the category's default "
                 "unit, with the constant fallback reserved for a category info that has no default at all); the own-unit shortcut dominates every conversion, simple and derived; every re-expression constructor receives the "
                 "source's category or quantity. Three defects found by these rules were repaired in /repo.",
        "note": NOTE,
    },
    "C03": {
        "technique": "operation-table extraction (lambda operators and argument order) from the delegating database operations; def-use "
                     "(non-dependence) analysis of the exponent in unit matching; CFG must-pass-through of the value conversion before "
                     "a unit label is rewritten; dispatch-table check of the add/sub dunders",
        "level": "Structural necessary conditions for all dimension-compatible operand pairs: Sum/Subtract apply +/- after unit matching to the "
                 "unchanged operands in order; the left operand's units and quantity win; a unit label is never rewritten without converting the "
                 "value in the same step; the dunders dispatch correctly. The exponent of a composing entry provably does not reach the "
                 "conversion (no dataflow) - a sound refutation of the property for derived operands with exponent != 1, recorded as a finding.",
        "note": NOTE,
    },
    "C04": {
        "technique": "exhaustive dispatch-table check over all 20 binary dunders of Scalar and Array (sibling agreement); operation-table extraction "
                     "of the (exponent, value) operator pairs; CFG dominance of the zero-exponent removal loop; idiom check of __pow__; shared "
                     "unit-matching rules of C03",
        "level": "All ten operators x two classes x both operand orders dispatch to the matching database operation with the right operand order "
                 "and number callback; exponent and value operators match per operation; exponents are merged in operand order and zero "
                 "exponents removed on every path to the created quantity; __pow__ is the (n-1)-fold product. The exponent-blind unit matching is "
                 "a recorded finding (same root cause as C03).",
        "note": NOTE,
    },
    "C05": {
        "technique": "CFG dominance / must-raise / must-pass-through queries on the rejecting guards; guarded-selection analysis of GetInfo "
                     "(origin + unit fact + quantity-type fact per returned value, from dominating equality tests); transitive write-effect "
                     "summaries; provenance call-site obligations of the unit-matching helper",
        "level": "Every path, for all operand pairs: after a composing-unit mismatch only the dimensionless exemption continues, all else "
                 "must-raise InvalidOperationError; GetInfo can only return an info selected under both a unit-equality and a quantity-type "
                 "fact (Unknown exempt), so cross-type conversion raises; CheckCategoryUnit cannot exit normally without a positive verdict; "
                 "a simple Quantity stores a unit only after the category check accepted it; ordering across quantity types must-raises "
                 "TypeError; the entry points write no registry state and no sink reaches an operand's composing map, so failures change nothing.",
        "note": NOTE,
    },
    "C06": {
        "technique": "table lint over the interpreted registration log: unit-symbol grammar decomposition, dimension-vector gate, "
                     "exact rational factor algebra, per-quantity-type agreement classes; SI-prefix lint by symbol and name",
        "level": "Exhaustive static lint of the 1548-row table: every symbol the grammar decomposes into registered units (and whose "
                 "decomposition is dimensionally coherent) must have factor == product of component factors up to one ratio per "
                 "quantity type, to the written precision; every SI-prefixed atomic row (by symbol and name) must differ by 10^n. "
                 "Relates rows to each other, which no test does; 36 genuine inconsistencies of the shipped table are frozen row by "
                 "row (key = symbol + deviation class) in known_findings.json, so a different wrong factor is a new violation.",
        "note": NOTE + " Additional trusted data: 26 SI derived atoms and 18 SI prefixes (sa/unitgrammar.py).",
    },
    "C07": {
        "technique": "who-may-write enumeration over Quantity slots; provenance/ownership abstract interpretation (two container levels, "
                     "function summaries to a fixpoint) over every mutation sink of the library; CFG must-raise / must-return; "
                     "cache-key completeness by def-use terms; read-set comparison of __eq__/__hash__",
        "level": "Holds for all operation histories because it is decided from which code may write a Quantity's state: every store to a "
                 "slot is in the constructor (memo slots in their getters), every mutator must-raises, no mutation sink of the library "
                 "reaches a composing map at the map or inner-list level (shallow copies are told apart from deep ones), captured maps "
                 "are fresh, ObtainQuantity interns every constructed object under a key mentioning all identity inputs, hash reads a "
                 "subset of eq, copy hooks return self, pickle layout agrees between writer and reader and None replaces the caption only where the caption is empty.",
        "note": NOTE,
    },
    "C08": {
        "technique": "forward abstract interpretation of the type of `other` over CFG paths and short-circuit expressions (guard analysis, "
                     "interprocedural into helpers that receive it); def-use terms of the comparands of __lt__/__eq__; CFG must-raise and dominance",
        "level": "For every __eq__/__ne__ of the nine value classes, on every path and for every possible class of `other` (including unrelated "
                 "objects), each attribute read / method call / conversion on `other` happens only where the established type defines it - so == "
                 "cannot raise; total_ordering classes must project `other` identically in __lt__ and __eq__ (Scalar and FractionScalar do not: "
                 "recorded findings); __lt__ converts other into self's unit and compares in the right orientation; cross-quantity-type "
                 "ordering must-raise TypeError on all four operators; hash reads a subset of eq.",
        "note": NOTE,
    },
    "C09": {
        "technique": "classification of every return of the two _DoOperation dispatchers (def-use terms, dominating guards); literal extraction of "
                     "the number-type set; exhaustive dispatch-table check; class-attribute check for numpy's operator opt-out",
        "level": "Every return of Scalar/Array._DoOperation is a new object built with a quantity (no shortcut returns an operand or a bare "
                 "number); number arms keep the own quantity and the written operand order; k / x puts the empty quantity on the number's side; "
                 "IsNumber covers python and numpy numbers; all 20 dunders exist. That numpy never hands control to the reflected dunders for "
                 "ndarray (and numpy-scalar) left operands is decided from the missing opt-out and recorded as two findings.",
        "note": NOTE,
    },
    "C10": {
        "technique": "sibling cross-check of the Scalar/Array dispatch tables; def-use terms for operand sides of the shared database operation; "
                     "CFG dominance/must-raise for the length guard; definite-assignment dataflow; pass-through check of the pair generator",
        "level": "Structural necessary conditions of elementwise equality, for every container combination and length: both classes reach the same "
                 "database operation with operands on their own sides, once per generated pair; two iterated operands are length-checked "
                 "before zipping and every result for list/tuple operands is reached only through the iteration that runs that check (no shortcut "
                 "for an empty operand); nothing read after the loop depends on the loop having run (empty operands); tuple-ness depends only on "
                 "iterated operands; the generator never coerces an operand; FromScalars and GetValues convert every element with the unit "
                 "they advertise. numpy's vectorised evaluation is trusted.",
        "note": NOTE,
    },
    "C11": {
        "technique": "CFG dominance and must-raise queries on the FixedArray gate and the Curve length check (every path to the store passes the "
                     "rejecting test); who-may-write enumeration of _dimension/_image/_domain; def-use terms for forwarded dimensions and units",
        "level": "For every construction route and every chain of copies / ChangingIndex / setter calls: nothing is stored before the guards ran "
                 "(dimension >= 2 on the stored dimension, len(values) == dimension, equal image/domain lengths of the new pair), the guards "
                 "cannot be passed by a violating input (must-raise, no other normal exit), every route forwards the right dimension, and "
                 "no other code writes the guarded fields - so a rejected attempt changes nothing and an accepted one satisfies the invariant.",
        "note": NOTE,
    },
    "C12": {
        "technique": "operator/limit/exclusivity table extraction from the nested tests of CheckValue and AddCategory; reaching-definition terms "
                     "of the compared value (conversion before comparison); structural recognition of the NaN-skipping min/max scan; "
                     "CFG must-pass-through of the default-value assertions; who-may-write of the verdict memo",
        "level": "For all limit configurations and units: each (limit, exclusivity) case is tested with its own operator in NaN-rejecting form "
                 "and reports that operator and limit; the compared value is always the amount converted to the category's default unit; the "
                 "Array scan skips NaNs first and hands both extremes to the same check; scalar kinds validate their whole amount; the verdict "
                 "memo is only written from the object's own validation; every given or inherited default value passes the assertions against "
                 "the final limits before a category is stored.",
        "note": NOTE,
    },
    "C13": {
        "technique": "who-may-write enumeration of value-object state; provenance/ownership abstract interpretation over every mutation sink "
                     "of the library with call-site obligations (fresh vs. operand-owned, two container levels); must-return-self of copy hooks; "
                     "argument-order check of __reduce__",
        "level": "Holds for all operation sequences because it is decided from which code may write operand state: state fields are stored "
                 "only by constructors, and every one of the library's mutation sinks (stores, deletes, augmented assignments, container "
                 "mutators, Fraction/FractionValue part-mutators, including those reached through parameter-mutating callees) acts on a "
                 "fresh object and never on a value object's stored container or fractional parts; copy hooks return the identical object; "
                 "pickle argument order matches the constructor.",
        "note": NOTE,
    },
    "C14": {
        "technique": "who-may-write enumeration of registry mutation sites via def-use terms; check-before-write and dominance on CFGs; "
                     "exhaustive table lint over the interpreted registration log",
        "level": "History clauses hold for all registration histories because they are decided from which code may write which state and "
                 "in what order relative to checks (single writers, no raise after a write, duplicate test dominates the write, base "
                 "moved to front); shipped-table clauses are exhaustive over 191 quantity types, 328 categories, 1548 units.",
        "note": NOTE,
    },
    "C15": {
        "technique": "transitive read/write effect summaries over the resolved call graph (from provenance sinks); escape+sink analysis of "
                     "registry-owned containers; memo-coherence rule (fields read on a memo's fill path vs. writers that must clear it)",
        "level": "For every non-registration function of the library (all public queries, arithmetic, construction) the transitive write "
                 "set on registry state is empty; no registry-owned container that escapes through a getter reaches a mutation sink; "
                 "each memo table is cleared by every registration method that writes a field its fill path reads - removing a single entry is not a clear - (two interning "
                 "incoherences that cannot be repaired without changing identity semantics are recorded findings). Covers every history "
                 "of queries, failures and registrations at once.",
        "note": NOTE,
    },
    "C16": {
        "technique": "structural recognition of the str.replace fold + constant folding of the chain over all table literals; def-use "
                     "flow of the rewritten string at every unit-string entry point",
        "level": "Exhaustive: the verified substitution chain is applied to all 1548 current symbols (no capture), to every derivable "
                 "legacy spelling (62: exact alias, idempotent) and to the pairs themselves; each of the six unit-string entry points "
                 "is checked to feed the rewritten spelling into its retry lookup and to store/cache the rewritten spelling.",
        "note": NOTE,
    },
    "C17": {
        "technique": "who-may-write enumeration of manager state; check-before-write and must-pass-through queries on CFGs (listener pairing "
                     "around the store of the current system); def-use terms for argument roles and mapping aliasing",
        "level": "For every sequence of add / remove / select / template / default-unit calls: state is written only by its designated "
                 "methods, no raise follows a write (rejected calls change nothing), ids are unique and template coverage is checked before "
                 "registration, SetCurrent unregisters the old listener and registers the new one on every path and always fires on_current, "
                 "automatic selection picks registered objects, notifications follow mutations and are reachable only through a statement that certainly changed the mapping, None is the only "
                 "representation of 'no current system' (the null system is never stored), template mappings are deep-copied, "
                 "ConvertToCurrent has the right roles. Two design-level defects (unguarded SetCurrent, mapping kept by reference) are recorded findings.",
        "note": NOTE,
    },
    "C18": {
        "technique": "operator-table extraction from the dunder bodies of Fraction and FractionValue; sibling cross-check of FractionScalar against "
                     "Scalar (normalised statement comparison, shared orientation/validation rules); conversion-intent analysis of the "
                     "parts of a FractionValue against the affine rows of the interpreted table; "
                     "belief-contradiction rule over the digit-cutting helpers of CreateFromFloat (text-of-number def-use closure per function)",
        "level": "Every arithmetic and order dunder of Fraction / FractionValue applies the matching operation on the denoted amount; "
                 "FractionScalar orders, validates and converts like Scalar; the number and the numerator are converted by two separate unit "
                 "conversions while 7 table units have an offset - a refutation for those units, recorded as a finding. The sign "
                 "CreateFromFloat gives the fraction part is the sign of the value itself (not of its truncated integer part); every helper of "
                 "CreateFromFloat that cuts digits out of str(float) at the '.' also handles exponent notation (one helper did not: repaired, 4f1625f); the digits "
                 "CreateFromFloat finds, the format/parse round trip and float exactness are not decided (they quantify over digit strings).",
        "note": NOTE,
    },
    "C19": {
        "technique": "exhaustive default-category resolution over the interpreted table; flow-sensitive def-use terms for constructor "
                     "argument roles; format-string/argument order analysis of __repr__",
        "level": "Every unit (1548) and category (328) of the shipped table is resolved statically the way GetDefaultCategory is verified "
                 "to resolve it; the positional juggling of all constructor forms is decided by argument roles (parameter positions) "
                 "reaching ObtainQuantity and the internal constructor; repr order matches the (value, unit, category) overload.",
        "note": NOTE,
    },
    "C20": {
        "technique": "typestate abstract interpretation of the string-builder functions (region / last-token / exponent-sign / boolean locals, "
                     "loop fixpoint over all abstract states); alphabet check of emitted separators and literals; def-use terms for the "
                     "fields of simple quantities and the unit shown by repr/str",
        "level": "All abstract states of the two builders are explored, so for any number of numerator and denominator factors and any "
                 "exponents: every factor is preceded by a separator and every separator by a factor, each factor sits on the correct side of the single '/', denominators render "
                 "unsigned exponents, and only the grammar's separators are emitted; the strings of simple quantities are the registered "
                 "category / quantity type / validated unit; repr/str show GetUnit() or the requested unit; the derived strings are built "
                 "from every entry of the composing map.",
        "note": NOTE,
    },
}

NOT_APPLICABLE = {}

NOTES = ("All checks are `./check <id> --tier quick|thorough` (python, stdlib only). Exit 0 = all obligations discharged or listed in "
         "known_findings.json (printed as KNOWN-FINDING lines); exit 1 = VIOLATION lines with replay files under evidence/violations/; "
         "exit 2 = ANALYSIS-ERROR (the rule could not be evaluated on this tree: never a silent pass, never reported as a violation). "
         "VERIF_REPO overrides the analysed tree (default /repo).")
