#!/usr/bin/env python3
"""Regenerate sa/anchors.py from the current /repo tree (see the docstring written into it)."""
import sys
sys.path.insert(0, "/verif")
from sa.srcmodel import Model
m = Model()
names = sorted({f.name for f in m.funcs.values()})
doc = ('"""Function and method names of the library as of the tree the rules were written against.\\n'
       'A private helper whose name is not in this set was introduced later: term normalisation treats a call\\n'
       'of it as transparent (its return expression is substituted), so that extracting a block into a new\\n'
       'helper does not change what the rules see.  Regenerate with tools/gen_anchors.py only when rules are\\n'
       're-validated against a new baseline."""\\n\\n')
open("/verif/sa/anchors.py", "w").write(doc.replace("\\n", "\n") + "KNOWN_FUNCTIONS = frozenset(%r)\n" % names)
print(len(names), "names")
