#!/usr/bin/env python3
"""Regenerate sa/anchors.py from the current /repo tree (see the docstring written into it)."""
import sys
sys.path.insert(0, "/verif")
from sa.srcmodel import Model
m = Model()
names = sorted({f.name for f in m.funcs.values()})
doc = ('"""Function and method names of the library as of the tree the rules were written against.\\n'
       'A private helper whose name is not in this set was introduced later: term normalisation treats a call\\n'
       'of it as transparent (its return expression is substituted), so that extracting a block into a new\\n'
       'helper does not change what the rules see.  Regenerate with tools/gen_anchors.py only when rules are\\n'
       're-validated against a new baseline."""\\n\\n')
import os
os.environ["VERIF_NO_FLATTEN"] = "1"
priv = {}
for q, f in sorted(m.funcs.items()):
    if f.name.startswith("_") and not f.name.startswith("__") and f.parent is None:
        priv["%s:%s:%s" % (f.path, f.cls or "", f.name)] = list(f.params)
open("/verif/sa/anchors.py", "w").write(doc.replace("\\n", "\n") + "KNOWN_FUNCTIONS = frozenset(%r)\n" % names
    + "\n# private functions of the baseline: 'path:class:name' -> parameter names (used to recognise a pure rename)\nPRIVATE_SIGNATURES = %s\n" % __import__("pprint").pformat(priv, width=160))
print(len(names), "names")
