#!/usr/bin/env python3
"""Regenerate MANIFEST.json from the table below (run from /verif)."""
import json
import os

HERE = os.path.dirname(os.path.dirname(os.path.abspath(__file__)))

# property id -> (technique, level text, level note, design ref)
CHECKS = {}
NOT_BUILT = {}


def load():
    import importlib.util

    spec = importlib.util.spec_from_file_location("claims", os.path.join(HERE, "tools", "claims.py"))
    mod = importlib.util.module_from_spec(spec)
    spec.loader.exec_module(mod)
    return mod


# rules added after the first build round (DESIGN.md 11.4), by technique
EXTRA = {
    "C01": "; who-may-write check that conversion routes keep no state",
    "C02": "; CFG must-pass-through of the default-value conversion; shape classification of every term _ConvertWithExp can return",
    "C03": "; exhaustive classification of the returns of the database operations; origin analysis of the result quantity under dominating facts",
    "C04": "; exhaustive classification of the returns of the database operations; entry-path terms of the exponent merge and of the per-unit accumulation",
    "C05": "; CFG must-pass-through over every entry of a derived request; accumulation recogniser for the joined exponents",
    "C07": "; ordered-comparison check of equality and intern keys; key-component analysis of cache hits",
    "C10": "; truth-table evaluation of the container-kind predicate; truth-context scan for the values container; dominance of the numpy dispatch over element-wise pairing",
    "C11": "; sibling agreement of the CreateCopy routes on forwarding the keyword arguments",
    "C13": "; scan for in-place (augmented) updates of parameters in conversion closures and routes",
    "C14": "; CFG must-pass-through of the valid-units validation before registration",
    "C15": "; CFG must-pass-through of the memo clear after a registry write; ordered intern keys",
    "C17": "; def-use roles of the template coverage check; origin analysis of the notified system",
    "C18": "; guard facts of Fraction.__eq__; term shape of what the parser hands to the constructor",
    "C20": "; dominating exponent-1 fact of the simple-quantity shortcut; truth-context scan of __str__",
}


def main():
    claims = load()
    checks = []
    for pid in sorted(claims.CHECKS):
        c = claims.CHECKS[pid]
        checks.append(
            {
                "property_id": pid,
                "quick_cmd": "./check %s --tier quick" % pid,
                "thorough_cmd": "./check %s --tier thorough" % pid,
                "evidence_file": "evidence/%s.json" % pid,
                "replay_cmd_template": "./check %s --replay {path}" % pid,
                "engine": "sa",
                "level_claimed": {"category": "other", "text": c["level"], "design_ref": c.get("design_ref", "DESIGN.md §5 " + pid)},
                "level_note": c["note"],
                "technique": c["technique"] + EXTRA.get(pid, "") + "; all on source normalised before analysis (AST inlining of helpers that are new w.r.t. the baseline, keyword/positional and super() call normalisation, desugaring of conditional expressions), with def-use terms and dominating facts instead of text matching",
            }
        )
    manifest = {
        "version": 1,
        "setup_cmd": "true",
        "hooks": {
            "guard": "ESSS_BARRIL_VERIF",
            "enable": "no hooks: the checks read /repo's source and never import or run it; the guard is unused",
            "baseline_off_cmd": "cd /repo && /venv/bin/python -m pytest -ra -q -p no:cacheprovider --timeout=900",
            "source_commits": [],
            "add_only": True,
        },
        "engines": [
            {
                "name": "sa",
                "path": "sa/",
                "serves_properties": sorted(claims.CHECKS),
                "kind_free_text": "repository-specific static analysis over Python ASTs (pure stdlib): source model with "
                "class-hierarchy call resolution, statement CFGs with dominance queries, provenance/ownership "
                "abstract interpretation, constant-propagating interpreter of the table fillers, exact "
                "rational-function algebra over formula syntax, unit-symbol grammar, string-builder typestate",
            }
        ],
        "checks": checks,
        "notes": claims.NOTES,
        "not_applicable": [{"property_id": k, "reason": v} for k, v in sorted(claims.NOT_APPLICABLE.items())],
    }
    with open(os.path.join(HERE, "MANIFEST.json"), "w") as f:
        json.dump(manifest, f, indent=1)
        f.write("\n")
    print("MANIFEST.json: %d checks, %d not applicable" % (len(checks), len(manifest["not_applicable"])))


if __name__ == "__main__":
    main()
