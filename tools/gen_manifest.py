#!/usr/bin/env python3
"""Regenerate MANIFEST.json from the table below (run from /verif)."""
import json
import os

HERE = os.path.dirname(os.path.dirname(os.path.abspath(__file__)))

# property id -> (technique, level text, level note, design ref)
CHECKS = {}
NOT_BUILT = {}


def load():
    import importlib.util

    spec = importlib.util.spec_from_file_location("claims", os.path.join(HERE, "tools", "claims.py"))
    mod = importlib.util.module_from_spec(spec)
    spec.loader.exec_module(mod)
    return mod


def main():
    claims = load()
    checks = []
    for pid in sorted(claims.CHECKS):
        c = claims.CHECKS[pid]
        checks.append(
            {
                "property_id": pid,
                "quick_cmd": "./check %s --tier quick" % pid,
                "thorough_cmd": "./check %s --tier thorough" % pid,
                "evidence_file": "evidence/%s.json" % pid,
                "replay_cmd_template": "./check %s --replay {path}" % pid,
                "engine": "sa",
                "level_claimed": {"category": "other", "text": c["level"], "design_ref": c.get("design_ref", "DESIGN.md §5 " + pid)},
                "level_note": c["note"],
                "technique": c["technique"],
            }
        )
    manifest = {
        "version": 1,
        "setup_cmd": "true",
        "hooks": {
            "guard": "ESSS_BARRIL_VERIF",
            "enable": "no hooks: the checks read /repo's source and never import or run it; the guard is unused",
            "baseline_off_cmd": "cd /repo && /venv/bin/python -m pytest -ra -q -p no:cacheprovider --timeout=900",
            "source_commits": [],
            "add_only": True,
        },
        "engines": [
            {
                "name": "sa",
                "path": "sa/",
                "serves_properties": sorted(claims.CHECKS),
                "kind_free_text": "repository-specific static analysis over Python ASTs (pure stdlib): source model with "
                "class-hierarchy call resolution, statement CFGs with dominance queries, provenance/ownership "
                "abstract interpretation, constant-propagating interpreter of the table fillers, exact "
                "rational-function algebra over formula syntax, unit-symbol grammar, string-builder typestate",
            }
        ],
        "checks": checks,
        "notes": claims.NOTES,
        "not_applicable": [{"property_id": k, "reason": v} for k, v in sorted(claims.NOT_APPLICABLE.items())],
    }
    with open(os.path.join(HERE, "MANIFEST.json"), "w") as f:
        json.dump(manifest, f, indent=1)
        f.write("\n")
    print("MANIFEST.json: %d checks, %d not applicable" % (len(checks), len(manifest["not_applicable"])))


if __name__ == "__main__":
    main()
