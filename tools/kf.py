#!/usr/bin/env python3
"""Developer helper: append an entry to known_findings.json.
usage: kf.py known|fixed PROP RULE KEY WHAT DEMO [WHY_NOT_FIXED | COMMIT]"""
import json, sys
p = "/verif/known_findings.json"
d = json.load(open(p))
status, prop, rule, key, what, demo = sys.argv[1:7]
e = {"status": status, "property": prop, "rule": rule, "key": key}
if status == "fixed":
    e["commit"] = sys.argv[7]
    e["what"] = "fixed: property=%s %s %s" % (prop, sys.argv[7], what)
    e["demonstrated_by"] = demo
else:
    e["what"] = what
    e["demonstrated_by"] = demo
    if len(sys.argv) > 7:
        e["why_not_fixed"] = sys.argv[7]
d["findings"] = [x for x in d["findings"] if not (x["rule"] == rule and x["key"] == key)] + [e]
json.dump(d, open(p, "w"), indent=1)
print("added", status, rule, key)
