#!/bin/sh
# parallel driver: parall.sh benign [prefix] | seeds [prefix] | new SRC PREFIX   (5 at a time; git worktree add is retried on lock contention)
J=${JOBS:-5}
case "$1" in
  benign) ls -d /verif/benign/${2:-}*/ | xargs -n1 basename | xargs -P $J -I{} sh -c 'python3 /verif/tools/benigncheck.py {} /verif/benign/{}/patch.diff /verif/benign/{}/notes.txt --keep 2>&1 | grep -v conda.cli | cut -c1-300' ;;
  seeds) ls -d /verif/seeded/${2:-C}*/ | xargs -n1 basename | xargs -P $J -I{} sh -c 'n={}; python3 /verif/tools/seedcheck.py $n /verif/seeded/$n/patch.diff /verif/seeded/$n/demo.py /verif/seeded/$n/notes.txt --prop ${n%-*} --keep 2>&1 | grep -v conda.cli | cut -c1-230' ;;
  new) for d in $2/*/out; do g=$(basename $(dirname $d)); for k in 1 2 3 4; do [ -f $d/refactor$k.diff ] && [ ! -d /verif/benign/$3$g-$k ] && echo "$3$g-$k $d/refactor$k.diff $d/notes$k.txt"; done; done | xargs -P $J -L1 sh -c 'python3 /verif/tools/benigncheck.py $0 $1 $2 --keep 2>&1 | grep -v conda.cli | cut -c1-300' ;;
esac
