#!/bin/sh
# re-run every kept seed under /verif/seeded against the current checks (updates meta.json); optional filter prefix
for d in /verif/seeded/${1:-C}*/; do
  n=$(basename $d)
  python3 /verif/tools/seedcheck.py $n $d/patch.diff $d/demo.py $d/notes.txt --prop ${n%-*} --keep 2>&1 | grep -v "conda.cli" | cut -c1-230
done
