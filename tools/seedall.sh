#!/bin/sh
# run seedcheck for every delivered seed under /tmp/seed/*/out (developer helper)
for d in /tmp/seed/C*/out; do
  id=$(basename $(dirname $d))
  for k in 1 2; do
    [ -f $d/mutant$k.diff ] || continue
    python3 /verif/tools/seedcheck.py $id-$k $d/mutant$k.diff $d/demo$k.py $d/notes$k.txt --prop $id --keep 2>&1 | grep -v "conda.cli"
  done
done
