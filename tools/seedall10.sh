#!/bin/sh
# round-10 mutants were written against a *refactored* tree (/tmp/seed10/<ID> = HEAD + the benign refactors named in
# /tmp/seed10/<ID>.base).  For each delivered mutant the combined patch (refactor + mutant) against /repo HEAD is built
# and validated like any other seed; kept as seeded/<ID>-19 / <ID>-20 with base.txt naming the refactor.
mkdir -p /tmp/seed10/combined
for d in /tmp/seed10/${ONLY:-C*}/out; do
  id=$(basename $(dirname $d))
  base=$(cat /tmp/seed10/$id.base)
  for k in 1 2; do
    n=$id-$((k+18))
    [ -f $d/mutant$k.diff ] || continue
    [ -d /verif/seeded/$n ] && continue
    # combined patch: worktree-free, by applying both patches on an exported copy
    w=/tmp/seed10/combined/$n; rm -rf $w; mkdir -p $w
    git -C /repo archive HEAD | tar -x -C $w
    ( cd $w && git init -q && git add -A && git -c user.email=a@b -c user.name=x commit -qm base && for b in $base; do git apply /verif/benign/$b/patch.diff || exit 1; done && git apply $d/mutant$k.diff && git add -A && git diff --cached > /tmp/seed10/combined/$n.diff )
    rm -rf $w
    [ -s /tmp/seed10/combined/$n.diff ] || { echo "$n: cannot build the combined patch"; continue; }
    echo "$n /tmp/seed10/combined/$n.diff $d/demo$k.py $d/notes$k.txt $id"
  done
done | xargs -P ${JOBS:-5} -L1 sh -c 'python3 /verif/tools/seedcheck.py $0 $1 $2 $3 --prop $4 --keep 2>&1 | grep -v conda.cli | cut -c1-260; [ -d /verif/seeded/$0 ] && cat /tmp/seed10/$4.base > /verif/seeded/$0/base.txt'
