#!/bin/sh
# process delivered round-2 seeds under /tmp/seed2/*/out that are not yet kept (numbered 3 and 4)
for d in /tmp/seed2/C*/out; do
  id=$(basename $(dirname $d))
  for k in 1 2; do
    n=$((k+2))
    [ -f $d/mutant$k.diff ] && [ -f $d/demo$k.py ] || continue
    [ -d /verif/seeded/$id-$n ] && continue
    python3 /verif/tools/seedcheck.py $id-$n $d/mutant$k.diff $d/demo$k.py $d/notes$k.txt --prop $id --keep 2>&1 | grep -v "conda.cli" | cut -c1-260
  done
done
