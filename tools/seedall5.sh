#!/bin/sh
# process delivered round-3 mutants under /tmp/seed5/<ID>/out (mutant1 -> <ID>-5, mutant2 -> <ID>-6) that are not kept yet
for d in /tmp/seed5/C*/out; do
  id=$(basename $(dirname $d))
  for k in 1 2; do
    n=$id-$((k+8))
    [ -f $d/mutant$k.diff ] || continue
    [ -d /verif/seeded/$n ] && continue
    echo "$n $d/mutant$k.diff $d/demo$k.py $d/notes$k.txt $id"
  done
done | xargs -P ${JOBS:-5} -L1 sh -c 'python3 /verif/tools/seedcheck.py $0 $1 $2 $3 --prop $4 --keep 2>&1 | grep -v conda.cli | cut -c1-260'
