#!/bin/sh
# round-8 mutants were written against a *refactored* tree (/tmp/seed8/<ID> = HEAD + the benign refactor named in
# /tmp/seed8/<ID>.base).  For each delivered mutant the combined patch (refactor + mutant) against /repo HEAD is built
# and validated like any other seed; kept as seeded/<ID>-15 / <ID>-16 with base.txt naming the refactor.
mkdir -p /tmp/seed8/combined
for d in /tmp/seed8/${ONLY:-C*}/out; do
  id=$(basename $(dirname $d))
  base=$(cat /tmp/seed8/$id.base)
  for k in 1 2; do
    n=$id-$((k+14))
    [ -f $d/mutant$k.diff ] || continue
    [ -d /verif/seeded/$n ] && continue
    # combined patch: worktree-free, by applying both patches on an exported copy
    w=/tmp/seed8/combined/$n; rm -rf $w; mkdir -p $w
    git -C /repo archive HEAD | tar -x -C $w
    ( cd $w && git init -q && git add -A && git -c user.email=a@b -c user.name=x commit -qm base && git apply /verif/benign/$base/patch.diff && git apply $d/mutant$k.diff && git diff > /tmp/seed8/combined/$n.diff )
    rm -rf $w
    [ -s /tmp/seed8/combined/$n.diff ] || { echo "$n: cannot build the combined patch"; continue; }
    echo "$n /tmp/seed8/combined/$n.diff $d/demo$k.py $d/notes$k.txt $id"
  done
done | xargs -P ${JOBS:-5} -L1 sh -c 'python3 /verif/tools/seedcheck.py $0 $1 $2 $3 --prop $4 --keep 2>&1 | grep -v conda.cli | cut -c1-260; [ -d /verif/seeded/$0 ] && cat /tmp/seed8/$4.base > /verif/seeded/$0/base.txt'
