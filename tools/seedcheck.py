#!/usr/bin/env python3
"""Validate a seeded breakage and run the checks against it.

usage: seedcheck.py NAME PATCH DEMO [NOTES] [--prop CNN] [--keep]
  1. scratch worktree of /repo HEAD under /tmp/sv/NAME (removed afterwards)
  2. demo on the clean worktree must exit 0
  3. patch applies; the pinned test suite passes (322); demo exits non-zero
  4. every claimed check (MANIFEST.json) is run against the patched worktree (VERIF_REPO=worktree,
     evidence redirected to a temp dir) ; exit codes and VIOLATION lines are recorded
  5. with --keep, /verif/seeded/NAME/{patch.diff,demo.py,notes.txt,meta.json} are written
Nothing is ever applied to or committed in /repo itself.
"""
import concurrent.futures
import json
import os
import shutil
import subprocess
import sys
import tempfile

VERIF = "/verif"


def sh(cmd, cwd=None, env=None, timeout=1200):
    p = subprocess.run(cmd, shell=True, cwd=cwd, env=env, capture_output=True, text=True, timeout=timeout)
    out = "\n".join(l for l in (p.stdout + p.stderr).splitlines() if "conda.cli.condarc" not in l)
    return p.returncode, out


def run_check(args):
    pid, wt, evdir = args
    env = dict(os.environ, VERIF_REPO=wt, VERIF_EVIDENCE_DIR=evdir)
    rc, out = sh("./check %s --tier quick" % pid, cwd=VERIF, env=env)
    viol = [l for l in out.splitlines() if l.startswith("VIOLATION") or " rule C" in l or l.startswith("ANALYSIS-ERROR")]
    return pid, rc, viol


def main():
    a = [x for x in sys.argv[1:] if not x.startswith("--")]
    keep = "--keep" in sys.argv
    prop = None
    if "--prop" in sys.argv:
        prop = sys.argv[sys.argv.index("--prop") + 1]
        a.remove(prop)
    name, patch, demo = a[0], os.path.abspath(a[1]), os.path.abspath(a[2])
    notes = os.path.abspath(a[3]) if len(a) > 3 else None
    wt = "/tmp/sv/" + name
    os.makedirs("/tmp/sv", exist_ok=True)
    sh("git -C /repo worktree remove --force %s" % wt)
    for _try in range(20):
        rc, out = sh("git -C /repo worktree add --detach %s HEAD" % wt)
        if not rc:
            break
        __import__("time").sleep(0.5)
        sh("git -C /repo worktree remove --force %s" % wt)
    if rc:
        print("cannot create worktree:", out)
        return 2
    meta = {"name": name, "property": prop, "repo_head": sh("git -C /repo rev-parse --short HEAD")[1].strip()}
    try:
        env = dict(os.environ, PYTHONPATH=wt + "/src")
        rc, out = sh("/venv/bin/python %s" % demo, cwd=wt, env=env)
        meta["demo_clean_exit"] = rc
        if rc != 0:
            print("REJECT %s: demo fails on the clean tree (exit %d)\n%s" % (name, rc, out[-600:]))
            return 1
        rc, out = sh("git apply %s" % patch, cwd=wt)
        if rc:
            rc, out = sh("git apply --3way %s" % patch, cwd=wt)
        if rc:
            print("REJECT %s: patch does not apply: %s" % (name, out[-400:]))
            return 1
        rc, out = sh("/venv/bin/python -m pytest -q -p no:cacheprovider --timeout=900 2>&1 | tail -3", cwd=wt, env=env)
        meta["tests_with_patch"] = out.strip().splitlines()[-1] if out.strip() else ""
        if "322 passed" not in out or "failed" in out:
            print("REJECT %s: test suite does not pass with the patch: %s" % (name, out[-300:]))
            return 1
        rc, out = sh("/venv/bin/python %s" % demo, cwd=wt, env=env)
        meta["demo_patched_exit"] = rc
        meta["demo_patched_tail"] = out.strip().splitlines()[-1][:300] if out.strip() else ""
        if rc == 0:
            print("REJECT %s: demo still passes with the patch" % name)
            return 1
        sh("find %s -name __pycache__ -prune -exec rm -rf {} +" % wt)
        man = json.load(open(os.path.join(VERIF, "MANIFEST.json")))
        pids = [c["property_id"] for c in man["checks"]]
        evdir = tempfile.mkdtemp(prefix="sv-ev-")
        with concurrent.futures.ThreadPoolExecutor(max_workers=16) as ex:
            results = list(ex.map(run_check, [(p, wt, evdir) for p in pids]))
        shutil.rmtree(evdir, ignore_errors=True)
        caught = {p: v for p, rc, v in results if rc == 1}
        errors = {p: v for p, rc, v in results if rc == 2}
        meta["checks_run"] = pids
        meta["caught_by"] = {p: [l for l in v if not l.startswith("VIOLATION")][:4] for p, v in caught.items()}
        meta["analysis_errors"] = {p: v[:2] for p, v in errors.items()}
        verdict = "CAUGHT by %s" % ",".join(sorted(caught)) if caught else ("ANALYSIS-ERROR in %s" % ",".join(sorted(errors)) if errors else "MISSED")
        print("%s [%s]: %s" % (name, prop, verdict))
        for p, v in caught.items():
            for l in v[:3]:
                print("    ", l[:260])
        for p, v in errors.items():
            for l in v[:2]:
                print("    ", l[:260])
        if keep:
            d = os.path.join(VERIF, "seeded", name)
            os.makedirs(d, exist_ok=True)
            def cp(a, b):
                if os.path.abspath(a) != os.path.abspath(b):
                    shutil.copy(a, b)
            cp(patch, os.path.join(d, "patch.diff"))
            cp(demo, os.path.join(d, "demo.py"))
            if notes and os.path.exists(notes):
                cp(notes, os.path.join(d, "notes.txt"))
                meta["needs_to_manifest"] = open(notes).read().strip()
            meta["what_was_run"] = ("scratch worktree of /repo HEAD: demo.py exit 0 on the clean tree; `git apply patch.diff`; pinned pytest command -> 322 passed; "
                                    "demo.py exits non-zero; then every claimed check with VERIF_REPO=<patched worktree>")
            meta["breaks_property"] = prop
            json.dump(meta, open(os.path.join(d, "meta.json"), "w"), indent=1, sort_keys=True)
        return 0
    finally:
        sh("git -C /repo worktree remove --force %s" % wt)
        shutil.rmtree(wt, ignore_errors=True)


if __name__ == "__main__":
    sys.exit(main())
