#!/usr/bin/env python3
"""Render /verif/seeded/MATRIX.md from the meta.json files (which seeded change is caught by which check)."""
import glob, json, os
rows = []
for p in sorted(glob.glob("/verif/seeded/*/meta.json")):
    d = json.load(open(p))
    name = d["name"]
    notes = ""
    np_ = os.path.join(os.path.dirname(p), "notes.txt")
    if os.path.exists(np_):
        notes = " ".join(open(np_).read().split())[:150]
    caught = d.get("caught_by", {})
    rules = []
    for prop, lines in caught.items():
        for l in lines:
            if " rule " in l:
                rules.append(l.split(" rule ")[1].split(" ")[0])
    verdict = "caught" if caught else ("analysis-error (exit 2)" if d.get("analysis_errors") else "MISSED")
    rows.append((name, d.get("property") or d.get("breaks_property"), verdict, ", ".join(sorted(set(rules))) or ", ".join("%s (exit 2)" % k for k in d.get("analysis_errors", {})), notes))
with open("/verif/seeded/MATRIX.md", "w") as f:
    f.write("| seed | breaks | verdict | rules that fire | what it is |\n|---|---|---|---|---|\n")
    for r in rows:
        f.write("| %s | %s | %s | %s | %s |\n" % r)
n = len(rows)
c = sum(1 for r in rows if r[2] == "caught")
print("%d seeds, %d caught, %d analysis-error, %d missed" % (n, c, sum(1 for r in rows if r[2].startswith("analysis")), sum(1 for r in rows if r[2] == "MISSED")))
