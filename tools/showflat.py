#!/usr/bin/env python3
"""showflat.py QUAL: print the flattened (helper-inlined) body of a function of VERIF_REPO, plus the inlining log."""
import ast, os, sys
sys.path.insert(0, os.path.dirname(os.path.dirname(os.path.abspath(__file__))))
from sa.srcmodel import Model
m = Model()
fl = m.flattener
for q in sys.argv[1:]:
    fn = m.func(q)
    print(ast.unparse(fn.node))
print("inlined:", fl.log)
print("refused:", fl.refused)
print("absorbed:", getattr(fl, "absorbed", None))
