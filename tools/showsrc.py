#!/usr/bin/env python3
"""Developer helper: print a source file without docstrings/blank/comment lines, with line numbers.
usage: showsrc.py FILE [FROM [TO]]"""
import ast, sys
p = sys.argv[1]
lo = int(sys.argv[2]) if len(sys.argv) > 2 else 1
hi = int(sys.argv[3]) if len(sys.argv) > 3 else 10**9
src = open(p).read()
tree = ast.parse(src)
doc = set()
for n in ast.walk(tree):
    if isinstance(n, (ast.FunctionDef, ast.ClassDef, ast.Module)) and n.body and isinstance(n.body[0], ast.Expr) and isinstance(n.body[0].value, ast.Constant) and isinstance(n.body[0].value.value, str):
        d = n.body[0]
        doc |= set(range(d.lineno, d.end_lineno + 1))
for i, l in enumerate(src.split("\n"), 1):
    if i < lo or i > hi or i in doc or not l.strip() or l.strip().startswith("#"):
        continue
    print("%d %s" % (i, l))
