#!/bin/sh
# tryp.sh NAME PATCH [checks...]: scratch worktree /tmp/sv/try-NAME with PATCH applied (kept until `tryp.sh NAME rm`), run the given checks on it
wt=/tmp/sv/try-$1
if [ "$2" = rm ]; then git -C /repo worktree remove --force $wt; exit 0; fi
if [ ! -d $wt ]; then mkdir -p /tmp/sv; git -C /repo worktree add --detach $wt HEAD >/dev/null 2>&1 && (cd $wt && git apply $2) || { echo "cannot set up"; exit 2; }; fi
shift; shift
mkdir -p /tmp/sv-ev-try
for c in "$@"; do VERIF_REPO=$wt VERIF_EVIDENCE_DIR=/tmp/sv-ev-try /verif/check $c 2>&1 | grep -v conda.cli | cut -c1-400; done
